"""Heap helpers: snapshots, deep copies, structural equality."""
import z3

from . import ops
from .values import (OptObj, Lazy, Obj, Opt, SStr, Hole, PyList, PyDict, SymSeq, Model, Unsupported, Splice,
                     is_number, is_bool, is_strlike, next_oid, to_real)


def deep_copy(v, memo=None):
    if memo is None:
        memo = {}
    if isinstance(v, Obj):
        if id(v) in memo:
            return memo[id(v)]
        o = Obj(v.cls, {}, clsname=v.clsname)
        o.fresh = True
        memo[id(v)] = o
        for k, x in v.fields.items():
            o.fields[k] = deep_copy(x, memo)
        return o
    if isinstance(v, OptObj):
        return OptObj(v.isnone, deep_copy(v.obj, memo))
    if isinstance(v, PyList):
        if id(v) in memo:
            return memo[id(v)]
        l = PyList([])
        l.fresh = True
        memo[id(v)] = l
        l.items = [deep_copy(x, memo) for x in v.items]
        return l
    if isinstance(v, PyDict):
        if id(v) in memo:
            return memo[id(v)]
        d = PyDict({})
        d.fresh = True
        memo[id(v)] = d
        for k, x in v.d.items():
            d.d[k] = deep_copy(x, memo)
        return d
    if isinstance(v, tuple):
        return tuple(deep_copy(x, memo) for x in v)
    if isinstance(v, list):
        return [deep_copy(x, memo) for x in v]
    if isinstance(v, Model):
        if id(v) in memo:
            return memo[id(v)]
        c = v.copy(memo) if hasattr(v, "copy") else v
        memo[id(v)] = c
        return c
    return v  # immutable: numbers, z3 terms, strings, Opt, SymSeq, None


def snapshot(v, memo=None):
    """Deep copy used as the `old` view; memo maps id(original) -> copy."""
    return deep_copy(v, memo)


def struct_eq(a, b, depth=0):
    """Structural equality of two values as a Bool (python bool or z3 term)."""
    if depth > 30:
        raise Unsupported("struct_eq depth")
    if a is b:
        return True
    if isinstance(a, Lazy):
        a = a.force()
    if isinstance(b, Lazy):
        b = b.force()
    if isinstance(a, OptObj) or isinstance(b, OptObj):
        if a is None:
            return b.isnone
        if b is None:
            return a.isnone
        if isinstance(a, OptObj) and isinstance(b, OptObj):
            return ops.Or(ops.And(a.isnone, b.isnone),
                          ops.And(ops.Not(a.isnone), ops.Not(b.isnone), struct_eq(a.obj, b.obj, depth + 1)))
        if isinstance(b, OptObj):
            a, b = b, a
        return ops.And(ops.Not(a.isnone), struct_eq(a.obj, b, depth + 1))
    if isinstance(a, Opt) or isinstance(b, Opt):
        if a is None:
            return b.isnone
        if b is None:
            return a.isnone
        if isinstance(a, Opt) and isinstance(b, Opt):
            return ops.Or(ops.And(a.isnone, b.isnone),
                          ops.And(ops.Not(a.isnone), ops.Not(b.isnone), a.val == b.val))
        if isinstance(a, Opt) and is_number(b):
            return ops.And(ops.Not(a.isnone), a.val == to_real(b))
        if isinstance(b, Opt) and is_number(a):
            return ops.And(ops.Not(b.isnone), b.val == to_real(a))
        return False
    if a is None or b is None:
        return a is None and b is None
    if is_bool(a) and is_bool(b):
        return ops.Iff(a, b)
    if is_number(a) and is_number(b):
        return ops.eq(a, b)
    if is_strlike(a) and is_strlike(b):
        return str_eq(a, b)
    if isinstance(a, Obj) and isinstance(b, Obj):
        if a.cls is not b.cls or a.clsname != b.clsname:
            return False
        if set(a.fields) != set(b.fields):
            return False
        return ops.And(*[struct_eq(a.fields[k], b.fields[k], depth + 1) for k in sorted(a.fields)]) \
            if a.fields else True
    if isinstance(a, (PyList, list, tuple)) and isinstance(b, (PyList, list, tuple)):
        ia = a.items if isinstance(a, PyList) else list(a)
        ib = b.items if isinstance(b, PyList) else list(b)
        if len(ia) != len(ib):
            return False
        return ops.And(*[struct_eq(x, y, depth + 1) for x, y in zip(ia, ib)]) if ia else True
    if isinstance(a, PyDict) and isinstance(b, PyDict):
        if list(a.d.keys()) != list(b.d.keys()):
            return False
        return ops.And(*[struct_eq(a.d[k], b.d[k], depth + 1) for k in a.d]) if a.d else True
    if isinstance(a, Splice) and isinstance(b, Splice):
        return a.seq is b.seq or a.name == b.name
    if isinstance(a, Model) or isinstance(b, Model):
        if type(a) is not type(b):
            return False
        if hasattr(a, "struct_eq"):
            return a.struct_eq(b)
        return a is b
    if isinstance(a, SymSeq) and isinstance(b, SymSeq):
        if a is b:
            return True
        k = z3.Int("k!seqeq%d" % next_oid())
        return ops.And(ops.eq(a.length, b.length),
                       z3.ForAll([k], z3.Implies(z3.And(k >= 0, k < a.length),
                                                  _b(struct_eq(a.get(k), b.get(k), depth + 1)))))
    if type(a) is not type(b) and not (ops.is_sym(a) or ops.is_sym(b)):
        return False
    raise Unsupported("struct_eq on %r / %r" % (a, b))


def _b(v):
    return z3.BoolVal(v) if isinstance(v, bool) else v


def str_eq(a, b):
    if isinstance(a, str) and isinstance(b, str):
        return a == b
    if isinstance(a, SStr) and isinstance(b, SStr):
        # same template and equal holes  (sufficient condition; used for synthesised commands)
        if len(a.parts) == len(b.parts):
            conds = []
            ok = True
            for p, q in zip(a.parts, b.parts):
                if isinstance(p, str) or isinstance(q, str):
                    if p != q:
                        ok = False
                        break
                elif isinstance(p, Hole) and isinstance(q, Hole):
                    conds.append(struct_eq(p.value, q.value))
                elif ops.is_sym(p) and ops.is_sym(q):
                    conds.append(p == q)
                else:
                    ok = False
                    break
            if ok:
                return ops.And(*conds) if conds else True
    from .stubs import sstr_to_z3
    za, zb = sstr_to_z3(a), sstr_to_z3(b)
    if za is None or zb is None:
        if isinstance(a, SStr) != isinstance(b, SStr):
            # formatted number vs plain text: not provably equal
            return False
        raise Unsupported("string equality on %r / %r" % (a, b))
    return za == zb

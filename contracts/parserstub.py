"""Call-site view of the G-code parser for the handlers (assumption A2/C19): `parse(cmd)` makes the parser
hold the command, `parameterItems()` yields the abstract item sequence of that command (pyvc.gitems).
The parser itself is verified/bounded-checked under C18/C19."""
from pyvc.contracts import contract


def mk_parser(b):
    """A GcodeParser object in an arbitrary prior state (every field is overwritten by parse())."""
    return b.new("GcodeParser", _src=b.opaque("parser state before parse()"))


@contract("GcodeParser.GcodeParser.parse")
def _(c):
    def summary(f):
        p = f.self
        src = f.a.source
        if src is None:
            from pyvc.values import Unsupported
            raise Unsupported("parse() continuing in the current source is not part of the handler-side view")
        f.interp.ctx.assumed.add("A2:GcodeParser.parse(cmd) + parameterItems() yield the (letter, value) items of cmd "
                                 "(abstract items; the parser is checked against an RS274 reader under C19)")
        f.interp.ctx.log_write(p, "*")
        p.fields["_src"] = src
        return p
    c.summary(summary)
    c.use_modular()


@contract("GcodeParser.GcodeParser.parameterItems")
def _(c):
    def summary(f):
        from pyvc import gitems
        from pyvc.values import Unsupported
        from pyvc.stubs import sstr_to_z3
        if f.a.source is not None:
            raise Unsupported("parameterItems(source) is not part of the handler-side view")
        src = f.self.fields.get("_src")
        z = sstr_to_z3(src)
        if z is None:
            raise Unsupported("parameterItems of a formatted command")
        return gitems.items_of(z)
    c.summary(summary)
    c.use_modular()

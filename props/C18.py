from props.common import *
from props.boundedrun import script
ID = "C18"
LEVEL = "other"
TAGS = ("C18",)
CONTRACT_MODULES = ALL_CONTRACTS
FUNCTIONS = []
ASSUMPTIONS = ["A2", "A4"]


def line_pattern_lemmas(edits):
    """Totality / progress of REGEX_GCODE_LINE, derived from the pattern text constant-folded out of the real source."""
    from pyvc.source import Program
    from pyvc.verify import make_interp
    from pyvc.ctx import Engine, PathCtx
    from pyvc.contracts import REGISTRY
    from pyvc import rx
    prog = Program(edits=edits) if edits else Program()
    ctx = PathCtx(Engine(), [])
    g = make_interp(prog, ctx, REGISTRY).module_globals(prog.modules["GcodeParser"])
    return rx.line_pattern_lemmas(g["PAT_GCODE_LINE"])


LEMMAS = [line_pattern_lemmas]
BOUNDED = [script("parser_roundtrip.py")]
EXPLANATION = ("Deductive part: (a) the line pattern, translated mechanically from the pattern text in the real source to a z3 "
               "regular expression, matches at every offset of every text (regex universality query) and matches the empty string only "
               "at the end of the text (progress), so parseLines consumes any input completely. Bounded part (labelled bounded, not "
               "counted under obligations): losslessness of fullText, stability of commandString under re-parsing and checksum "
               "validation are checked exhaustively on all strings up to a length bound over one representative per character class "
               "of the pattern plus all sequences of up to three template lines -- they depend on which derivation the backtracking "
               "engine picks, which a contract on the pattern cannot express.")
TECHNIQUE = "regex-language lemmas from the real pattern text (z3 sequence theory) + bounded exhaustive round-trip check of the real parser"
EXTRA_ASSUMPTIONS = ["the digit class is ASCII 0-9 in the regex translation and in the bounded alphabets"]
BREAKERS = [
    {"module": "GcodeParser", "old": "    r\"[^;\\r\\n]*?\" +\n", "new": "    r\"[^;*\\r\\n]*?\" +\n", "desc": "catch-all alternative no longer accepts '*'",
     "functions": [], "lemmas": True},
    {"module": "GcodeParser", "old": "        else:\n            # Don't retain the checksum text of a previously parsed line\n            self._rawChecksum = None\n", "new": "",
     "desc": "stale raw checksum (original F11)", "functions": [], "bounded": True},
    {"module": "GcodeParser", "old": "PAT_EOL = r\"(\\r\\n|\\r|\\n|\\Z)\"", "new": "PAT_EOL = r\"(\\r\\n|\\r|\\n|)\"", "desc": "line pattern may match the empty string anywhere",
     "functions": [], "lemmas": True},
]

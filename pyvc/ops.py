"""Polymorphic logical/arithmetic helpers for contracts and spec code.

Contracts and spec functions are plain Python.  They are evaluated
 (a) by the verifier on symbolic values (z3 terms), and
 (b) by the native replay harness on the values of the real objects (floats,
     bools, strings) under /venv/bin/python, where z3 is NOT installed.
Every helper therefore works without z3 when all arguments are concrete.
"""
from fractions import Fraction

try:  # z3 is only available in the tooling interpreter
    import z3
except ImportError:  # native replay
    z3 = None

# tolerance used for *native* (float) evaluation of equalities during replay
NATIVE_EQ_TOL = 1e-7


def is_sym(v):
    return z3 is not None and isinstance(v, z3.ExprRef)


def _anysym(vs):
    return any(is_sym(v) for v in vs)


def _num(v):
    """Concrete number -> exact z3 value."""
    if isinstance(v, bool):
        return z3.BoolVal(v)
    if isinstance(v, int):
        return z3.RealVal(v)
    if isinstance(v, Fraction):
        return z3.RealVal(str(v.numerator)) / z3.RealVal(str(v.denominator)) \
            if v.denominator != 1 else z3.RealVal(str(v.numerator))
    if isinstance(v, float):
        f = Fraction(repr(v))
        return _num(f)
    return v


def lift(v):
    """Lift a concrete python value to a z3 term (numbers -> Real, bool -> Bool, str -> String)."""
    if is_sym(v):
        return v
    if isinstance(v, (bool, int, Fraction, float)):
        return _num(v)
    if isinstance(v, str):
        return z3.StringVal(v)
    raise TypeError("cannot lift %r" % (v,))


def _b(v):
    if is_sym(v):
        return v
    return z3.BoolVal(bool(v))


def And(*xs):
    xs = _flat(xs)
    if not _anysym(xs):
        return all(bool(x) for x in xs)
    if any((not is_sym(x)) and not x for x in xs):
        return False
    ys = [x for x in xs if is_sym(x)]
    return z3.And(*ys) if len(ys) > 1 else ys[0]


def Or(*xs):
    xs = _flat(xs)
    if not _anysym(xs):
        return any(bool(x) for x in xs)
    if any((not is_sym(x)) and x for x in xs):
        return True
    ys = [x for x in xs if is_sym(x)]
    return z3.Or(*ys) if len(ys) > 1 else ys[0]


def _flat(xs):
    out = []
    for x in xs:
        if isinstance(x, (list, tuple)):
            out.extend(_flat(x))
        else:
            out.append(x)
    return out


def Not(x):
    if is_sym(x):
        return z3.Not(x)
    return not x


def Implies(a, b):
    if not is_sym(a):
        return b if a else True
    if not is_sym(b):
        return True if b else z3.Not(a)
    return z3.Implies(a, b)


def Iff(a, b):
    if not is_sym(a) and not is_sym(b):
        return bool(a) == bool(b)
    return _b(a) == _b(b)


def If(c, a, b):
    if not is_sym(c):
        return a if c else b
    if isinstance(a, bool) or isinstance(b, bool) or (is_sym(a) and z3.is_bool(a)) \
            or (is_sym(b) and z3.is_bool(b)):
        return z3.If(c, _b(a), _b(b))
    return z3.If(c, lift(a), lift(b))


def eq(a, b):
    """Equality: exact on symbolic values, tolerant on native floats."""
    if is_sym(a) or is_sym(b):
        if a is None or b is None:
            return False
        la, lb = lift(a), lift(b)
        if z3.is_int(la) and z3.is_real(lb):
            la = z3.ToReal(la)
        if z3.is_real(la) and z3.is_int(lb):
            lb = z3.ToReal(lb)
        return la == lb
    if isinstance(a, bool) or isinstance(b, bool):
        return a == b
    if isinstance(a, float) or isinstance(b, float):
        if a is None or b is None or isinstance(a, str) or isinstance(b, str):
            return False
        return abs(a - b) <= NATIVE_EQ_TOL * (1 + abs(a) + abs(b))
    return a == b


def ne(a, b):
    return Not(eq(a, b))


def le(a, b):
    return a <= b


def lt(a, b):
    return a < b


def Abs(a):
    if is_sym(a):
        return z3.If(a >= 0, a, -a)
    return abs(a)


def Max(a, b):
    if is_sym(a) or is_sym(b):
        return z3.If(lift(a) >= lift(b), lift(a), lift(b))
    return max(a, b)


def Min(a, b):
    if is_sym(a) or is_sym(b):
        return z3.If(lift(a) <= lift(b), lift(a), lift(b))
    return min(a, b)


def sq(a):
    return a * a


def is_none(v):
    """`v is None` for optional values (Opt in the verifier, plain None natively)."""
    if hasattr(v, "isnone"):
        return v.isnone
    return v is None


def val(v):
    """Numeric payload of an optional value (meaningful only where not is_none)."""
    if hasattr(v, "isnone"):
        return v.val
    return v


TRUE = True
FALSE = False


_QN = [0]


def ForAll(lo, hi, fn, nvars=1):
    """forall k in [lo, hi): fn(k)   (native: iterate; symbolic: quantifier)."""
    if not (is_sym(lo) or is_sym(hi)) and z3 is None:
        return all(bool(fn(k)) for k in range(int(lo), int(hi)))
    if not (is_sym(lo) or is_sym(hi)) and isinstance(hi, int) and isinstance(lo, int) and hi - lo <= 8:
        return And(*[fn(k) for k in range(lo, hi)]) if hi > lo else True
    _QN[0] += 1
    k = z3.Int("q!%d" % _QN[0])
    body = fn(k)
    if not is_sym(body):
        body = z3.BoolVal(bool(body))
    return z3.ForAll([k], z3.Implies(z3.And(k >= lo, k < hi), body))


def Exists(lo, hi, fn):
    if not (is_sym(lo) or is_sym(hi)) and z3 is None:
        return any(bool(fn(k)) for k in range(int(lo), int(hi)))
    if not (is_sym(lo) or is_sym(hi)) and isinstance(hi, int) and isinstance(lo, int) and hi - lo <= 8:
        return Or(*[fn(k) for k in range(lo, hi)]) if hi > lo else False
    _QN[0] += 1
    k = z3.Int("q!%d" % _QN[0])
    body = fn(k)
    if not is_sym(body):
        body = z3.BoolVal(bool(body))
    return z3.Exists([k], z3.And(k >= lo, k < hi, body))


def str_eq(a, b):
    """String equality (ids, commands)."""
    if is_sym(a) or is_sym(b):
        if a is None or b is None:
            return False
        return lift(a) == lift(b)
    return a == b


APPLICATIONS = []      # (opaque fn, args) applied since the last reset (one path of the executor)


class OpaqueFn(object):
    """A spec function hidden behind an uninterpreted symbol (opaque / reveal discipline).

    op(*args)        -> application of the uninterpreted symbol (natively: the definition's value)
    op.reveal(*args) -> the definitional equation  op(args) == definition(args)  for these arguments.
    Because only instances of the definition can be produced, `reveal` cannot be used to assume
    anything that is not true of the defined function."""

    def __init__(self, name, definition):
        self.name = name
        self.definition = definition
        self._fn = None

    def _decl(self, args):
        if self._fn is None:
            sorts = [lift(a).sort() if not isinstance(a, bool) else z3.BoolSort() for a in args]
            self._fn = z3.Function("spec." + self.name, *(sorts + [z3.BoolSort()]))
        return self._fn

    def __call__(self, *args):
        if z3 is None or not _anysym(args):
            return self.definition(*args)
        la = [lift(a) for a in args]
        APPLICATIONS.append((self, tuple(args)))
        return self._decl(la)(*la)

    def reveal(self, *args):
        if z3 is None or not _anysym(args):
            return True
        la = [lift(a) for a in args]
        d = self.definition(*args)
        if not is_sym(d):
            d = z3.BoolVal(bool(d))
        return self._decl(la)(*la) == d


def opaque(name, definition):
    return OpaqueFn(name, definition)


# ----------------------------------------------------------------------------------------------
# trigonometry (assumption A2): cos/sin are uninterpreted; the facts below are instances of real identities
_TRIG = {}


def _trig_fn(name):
    if name not in _TRIG:
        _TRIG[name] = z3.Function("math." + name, z3.RealSort(), z3.RealSort())
    return _TRIG[name]


def Cos(t):
    if is_sym(t):
        return _trig_fn("cos")(t)
    import math
    return math.cos(t)


def Sin(t):
    if is_sym(t):
        return _trig_fn("sin")(t)
    import math
    return math.sin(t)


def Pi():
    if z3 is None:
        import math
        return math.pi
    return z3.Real("pi")


def trig_pythagoras(t):
    if not is_sym(t):
        return True
    return Cos(t) * Cos(t) + Sin(t) * Sin(t) == 1


def trig_addition(a, b):
    """cos(a+b), sin(a+b) in terms of a and b."""
    if not (is_sym(a) or is_sym(b)):
        return True
    return z3.And(Cos(a + b) == Cos(a) * Cos(b) - Sin(a) * Sin(b), Sin(a + b) == Sin(a) * Cos(b) + Cos(a) * Sin(b),
                  trig_pythagoras(a), trig_pythagoras(b), trig_pythagoras(a + b))


def trig_period(t, turns=1):
    if not is_sym(t):
        return True
    p = 2 * Pi() * turns
    return z3.And(Cos(t + p) == Cos(t), Sin(t + p) == Sin(t))


def trig_chord(d):
    """2 - 2 cos d <= d^2   (the chord is not longer than the arc)."""
    if not is_sym(d):
        return True
    return 2 - 2 * Cos(d) <= d * d

ID = "_reg"
LEVEL = "proof"
TAGS = ("C13", "C12", "C01", "C14", "C08")
CONTRACT_MODULES = ["contracts.geometry", "contracts.axis", "contracts.state"]
FUNCTIONS = ["ExcludeRegionState.ExcludeRegionState." + m for m in (
    "getRegion", "addRegion", "deleteRegion", "replaceRegion", "isPointExcluded")]

"""Reference semantics of the deferred-command table (C06), written from the property statement:
  exclude: nothing is kept;  first: the first instance is kept (position of first occurrence);
  last:  the last instance is kept, ordered by its (last) occurrence;
  merge: one entry carrying the latest value of every parameter seen, ordered by its last occurrence.
Natively the table is a python OrderedDict; symbolically it is the array view of pyvc.ordmap."""
from collections import OrderedDict

from pyvc import ops
from pyvc.ops import And, Or, Not, Implies, If, eq
from spec import rs274


def expected_after(old, mode, cmd, gcode):
    """Native reference: the table after deferring `cmd` under `mode`."""
    new = OrderedDict((k, (OrderedDict(v) if isinstance(v, dict) else v)) for k, v in old.items())
    if mode == "first":
        if gcode not in new:
            new[gcode] = cmd
    elif mode == "last":
        new.pop(gcode, None)
        new[gcode] = cmd
    elif mode == "merge":
        args = new.pop(gcode, None)
        if not isinstance(args, dict):
            args = OrderedDict()
        code, params = rs274.command_of(rs274.words(cmd))
        for (letter, value) in params:
            args[letter] = None if value is None else float(value)
        new[gcode] = args
    return new


def native_same(a, b):
    """Same entries in the same order; argument maps compare as maps (their internal order is not specified)."""
    if list(a.keys()) != list(b.keys()):
        return False
    for k in a:
        x, y = a[k], b[k]
        if isinstance(x, dict) != isinstance(y, dict):
            return False
        if isinstance(x, dict):
            # the parser additionally reports a trailing free-text argument under the key '' when a command contains a
            # valueless letter; merge-mode commands are letter/number words by assumption, the '' entry is not compared
            x = dict((l, v) for l, v in x.items() if l != "")
            y = dict((l, v) for l, v in y.items() if l != "")
            if set(x.keys()) != set(y.keys()):
                return False
            for l in x:
                if (x[l] is None) != (y[l] is None) or (x[l] is not None and not ops.eq(float(x[l]), float(y[l]))):
                    return False
        elif x != y:
            return False
    return True

from props.common import *
ID = "C19"
LEVEL = "other"
TAGS = ("C19",)
CONTRACT_MODULES = ALL_CONTRACTS
FUNCTIONS = [H + "_handle_" + c for c in ("G0", "G1", "G2", "G3", "G28", "G92", "G10")] + [H + "handleGcode"]
ASSUMPTIONS = ["A1", "A2", "A4"]
EXPLANATION = ("Handler half (deductive): loop invariants over an item sequence of arbitrary symbolic length prove that G0/G1/G2/G3/G92 "
               "act on the LAST value given for each letter (recursive spec function last(items, k, L)), that valueless words are "
               "ignored by them, and that G28/G10 react to the presence of a letter. Parser half (parameterItems vs. an independent "
               "RS274 reader) depends on the regex engine's backtracking and is a BOUNDED check -- see coverage.bounded; it is not "
               "counted as proved.")
BREAKERS = [
    {"module": "GcodeHandlers", "old": "                elif (label == \"X\"):\n                    x = value\n                elif (label == \"Y\"):\n                    y = value\n                elif (label == \"Z\"):\n                    z = value\n\n        return self.state.processLinearMoves",
     "new": "                elif (label == \"X\" and x is None):\n                    x = value\n                elif (label == \"Y\"):\n                    y = value\n                elif (label == \"Z\"):\n                    z = value\n\n        return self.state.processLinearMoves",
     "desc": "G0/G1 act on the FIRST X word", "functions": [H + "_handle_G0"]},
    {"module": "GcodeHandlers", "old": "                elif (label == \"J\"):\n                    j = value", "new": "                elif (label == \"J\"):\n                    i = value",
     "desc": "J word stored as I", "functions": [H + "_handle_G2"]},
]

"""Independent RS274/Marlin-style word reader (oracle for C07/C19 and for decoding synthesised commands).

`words(text)` reads plain strings.  `rope_words(parts)` reads the executor's string ropes, where a formatted number
appears as a hole: the hole stands for the value that was formatted (assumption A2 on str(float), checked by C07)."""
from fractions import Fraction

LETTERS = "ABCDEFGHIJKLMNOPQRSTUVWXYZ"
NUMCH = "0123456789.+-"


def _parse_number(s):
    """Firmware-style: optional sign, digits with optional single point.  Returns (value|None, consumed)."""
    i = 0
    n = len(s)
    if i < n and s[i] in "+-":
        i += 1
    j = i
    seen_dot = False
    digits = 0
    while j < n and (s[j].isdigit() or (s[j] == "." and not seen_dot)):
        if s[j] == ".":
            seen_dot = True
        else:
            digits += 1
        j += 1
    if digits == 0:
        return None, 0
    txt = s[:j]
    if txt.endswith("."):
        txt = txt[:-1]
    return Fraction(txt), j


def words(text):
    """'G1 X1.5 Y-2' -> [('G', 1), ('X', 1.5), ('Y', -2)] ; valueless letters get None; other characters are
    reported as ('?', ch)."""
    out = []
    i = 0
    n = len(text)
    while i < n:
        ch = text[i]
        if ch in " \t":
            i += 1
            continue
        if ch.upper() in LETTERS:
            j = i + 1
            while j < n and text[j] == " ":
                j += 1
            val, used = _parse_number(text[j:])
            if val is None:
                out.append((ch.upper(), None))
                i += 1
            else:
                out.append((ch.upper(), val))
                i = j + used
            continue
        out.append(("?", ch))
        i += 1
    return out


def rope_words(parts):
    """parts: list of str | hole-objects (with .value) | other (opaque text).  Returns list of
    (letter, value) where value is a Fraction, a hole value, or None; opaque parts give ('?', part)."""
    out = []
    pending_letter = None
    for p in parts:
        if isinstance(p, str):
            ws = words(p)
            if pending_letter is not None:
                # a letter at the end of the previous text part, followed by more text: valueless
                out.append((pending_letter, None))
                pending_letter = None
            if ws and ws[-1][1] is None and ws[-1][0] != "?" and p.rstrip(" ").upper().endswith(ws[-1][0]):
                pending_letter = ws[-1][0]
                ws = ws[:-1]
            out.extend(ws)
        elif hasattr(p, "value") and pending_letter is not None:
            out.append((pending_letter, p.value))
            pending_letter = None
        else:
            if pending_letter is not None:
                out.append((pending_letter, None))
                pending_letter = None
            out.append(("?", p))
    if pending_letter is not None:
        out.append((pending_letter, None))
    return out


def command_of(ws):
    """First word as the code string ('G92'), rest as the parameter words."""
    if not ws or ws[0][0] not in "GMT" or ws[0][1] is None:
        return None, ws
    v = ws[0][1]
    code = "%s%d" % (ws[0][0], int(v)) if Fraction(v).denominator == 1 else "%s%s" % (ws[0][0], v)
    return code, ws[1:]


def last(ws, letter):
    """Value of the last word with that letter *and a value* (None if there is none)."""
    r = None
    for (l, v) in ws:
        if l == letter and v is not None:
            r = v
    return r


def distinct_letters(ws):
    ls = [l for (l, _) in ws]
    return len(ls) == len(set(ls)) and "?" not in ls


def params_text(cmd):
    """Text after the code word of a command ('G10 S1' -> 'S1'), independent of the plugin's regex."""
    if hasattr(cmd, "sort") or not isinstance(cmd, str):
        from pyvc.stubs import GCODE_PARAMS     # symbolic: the same uninterpreted function (A2)
        from pyvc import ops
        return GCODE_PARAMS(ops.lift(cmd))
    i = 0
    n = len(cmd)
    if i < n and cmd[i].isalpha():
        i += 1
        j = i
        while j < n and cmd[j].isdigit():
            j += 1
        if j > i:
            if j < n and cmd[j] == "." and j + 1 < n and cmd[j + 1].isdigit():
                j += 1
                while j < n and cmd[j].isdigit():
                    j += 1
            while j < n and cmd[j] in " \t\n\r\f\v":
                j += 1
            rest = cmd[j:]
            if "\n" not in rest.rstrip("\n") and not rest.endswith("\n"):
                return rest
    return cmd

#!/usr/bin/env python3
"""Evaluate a patch to the repository against the quick checks WITHOUT touching /repo: the patch is applied to a scratch
worktree under /tmp, the checks run with VERIF_REPO pointing at it and their evidence redirected to a scratch
directory, then everything is removed.  Used for the behaviour-preserving (false-alarm) rounds and for seeded changes.

usage: eval_patch.py <patch.diff> [--props C01,C02 | --all] [--jobs 3] [--breakers 0]
Prints one line per property: <id> exit=<code> <summary line> and the VIOLATION / undecided lines, if any."""
import argparse
import importlib
import os
import re
import shutil
import subprocess
import sys
import tempfile
from concurrent.futures import ThreadPoolExecutor

VERIF = os.path.dirname(os.path.dirname(os.path.abspath(__file__)))
sys.path.insert(0, VERIF)
ALL = ["C%02d" % i for i in range(1, 21)]


def touched(patch_text):
    """(module, function) names a diff touches: hunk headers plus changed def lines."""
    out, mod = set(), None
    for line in patch_text.splitlines():
        m = re.match(r"\+\+\+ b/octoprint_excluderegion/(\w+)\.py", line)
        if m:
            mod = m.group(1)
            continue
        m = re.match(r"@@.*@@\s*(?:def|class)\s+(\w+)", line)
        if m and mod:
            out.add((mod, m.group(1)))
        m = re.match(r"[-+ ]\s*def\s+(\w+)", line)
        if m and mod:
            out.add((mod, m.group(1)))
    return out


def select(patch_text):
    names = touched(patch_text)
    mods = set(m for (m, _) in names)
    sel = []
    for pid in ALL:
        try:
            prop = importlib.import_module("props." + pid)
        except Exception:
            sel.append(pid)
            continue
        fns = list(getattr(prop, "FUNCTIONS", []))
        hit = any(q.split(".")[0] in mods for q in fns) or (getattr(prop, "BOUNDED", None) and mods & {"GcodeParser", "StreamProcessor"})
        if hit:
            sel.append(pid)
    return sel or ALL


def main():
    ap = argparse.ArgumentParser()
    ap.add_argument("patch")
    ap.add_argument("--props")
    ap.add_argument("--all", action="store_true")
    ap.add_argument("--jobs", type=int, default=3)
    ap.add_argument("--breakers", default="0")
    ap.add_argument("--keep", action="store_true")
    a = ap.parse_args()
    text = open(a.patch).read()
    props = ALL if a.all else (a.props.split(",") if a.props else select(text))
    wt = tempfile.mkdtemp(prefix="wt_ev_", dir="/tmp")
    ev = tempfile.mkdtemp(prefix="ev_", dir="/tmp")
    os.rmdir(wt)
    subprocess.run(["git", "-C", "/repo", "worktree", "add", "-q", "--detach", wt, "HEAD"], check=True)
    rc_all = 0
    try:
        r = subprocess.run(["git", "-C", wt, "apply", os.path.abspath(a.patch)], capture_output=True, text=True) \
            if text.strip() else subprocess.CompletedProcess([], 0)
        if r.returncode != 0:
            print("PATCH DOES NOT APPLY:", r.stderr.strip())
            return 9
        env = dict(os.environ, VERIF_REPO=wt, VERIF_EVIDENCE_DIR=ev, VERIF_QUICK_BREAKERS=a.breakers)

        def run(pid):
            p = subprocess.run([os.path.join(VERIF, "check"), pid], capture_output=True, text=True, env=env, cwd=VERIF)
            return pid, p.returncode, p.stdout + p.stderr

        with ThreadPoolExecutor(a.jobs) as ex:
            for pid, rc, out in ex.map(run, props):
                lines = out.splitlines()
                summ = [l for l in lines if l.startswith(pid + ":")]
                print("%s exit=%d %s" % (pid, rc, summ[-1] if summ else (lines[-1] if lines else "")))
                for l in lines:
                    if re.match(r"VIOLATION|UNDECIDED|CHECKER-ERROR|UNSUPPORTED|  undecided|  unsupported", l):
                        print("    " + l[:400])
                if rc != 0:
                    rc_all = 1
                    if a.keep:
                        tag = "/tmp/evalpatch_%s_%s" % (os.path.basename(a.patch), pid)
                        with open(tag + ".log", "w") as fh:
                            fh.write(out)
                        if os.path.isdir(os.path.join(ev, "replay")):
                            shutil.copytree(os.path.join(ev, "replay"), tag + "_replay", dirs_exist_ok=True)
    finally:
        subprocess.run(["git", "-C", "/repo", "worktree", "remove", "--force", wt])
        shutil.rmtree(ev, ignore_errors=True)
    return rc_all


if __name__ == "__main__":
    sys.exit(main())

"""Reference printer (oracle for C01-C05, C08, C14, C15), written from the RS274/Marlin reading of the
supported dialect, independent of the plugin code.  Polymorphic: runs on z3 terms in the verifier and on
floats in the native replay.

Printer state (ghost): physical native x, y, z; E register e (native units); cumulative filament `fil`;
high-water mark `hw` (retraction depth = hw - fil); firmware-retracted flag `fw`.
The coordinate frame (offsets, unit, absolute/relative) is NOT part of this object: by invariant I-frame it is
the tracked frame (frame-setting commands are always forwarded), and is passed in as `frame` (a Position-like
object with X_AXIS..E_AXIS carrying offset/homeOffset/unitMultiplier/absoluteMode)."""
from pyvc import ops
from pyvc.ops import And, Or, Not, Implies, If, eq, is_none, val, Max
from spec import rs274


class Printer(object):
    FIELDS = ("x", "y", "z", "e", "fil", "hw", "fw")

    def __init__(self, x, y, z, e, fil=0, hw=0, fw=False):
        self.x, self.y, self.z, self.e, self.fil, self.hw, self.fw = x, y, z, e, fil, hw, fw
        self.trace = []      # what happened, for reports

    def copy(self):
        p = Printer(self.x, self.y, self.z, self.e, self.fil, self.hw, self.fw)
        p.trace = list(self.trace)
        return p

    def depth(self):
        return self.hw - self.fil

    def __repr__(self):
        return "Printer(x=%s y=%s z=%s e=%s fil=%s hw=%s fw=%s)" % (self.x, self.y, self.z, self.e, self.fil, self.hw, self.fw)


def axis_target(ax, cur, v, absolute=None):
    """Native target of logical word value v on an axis whose physical position is `cur`."""
    m = ax.absoluteMode if absolute is None else absolute
    return If(m, v * ax.unitMultiplier + ax.offset + ax.homeOffset, v * ax.unitMultiplier + cur)


def opt_target(ax, cur, v):
    """v optional (None / Opt / number)."""
    if v is None:
        return cur
    if hasattr(v, "isnone"):
        return If(v.isnone, cur, axis_target(ax, cur, v.val))
    return axis_target(ax, cur, v)


def push(p, delta):
    """Advance (delta>0) or pull back (delta<0) the filament by delta (native units)."""
    p.fil = p.fil + delta
    p.hw = Max(p.hw, p.fil)
    p.e = p.e + delta


def do_move(p, frame, e=None, x=None, y=None, z=None):
    """G0/G1 (and the end point of G2/G3): each given axis goes to its target; E is pushed by the difference."""
    q = p.copy()
    q.x = opt_target(frame.X_AXIS, p.x, x)
    q.y = opt_target(frame.Y_AXIS, p.y, y)
    q.z = opt_target(frame.Z_AXIS, p.z, z)
    new_e = opt_target(frame.E_AXIS, p.e, e)
    push(q, new_e - p.e)
    q.e = new_e
    return q


def do_g92_e(p, frame, v):
    """G92 E<v>: the E register is *set* (no filament motion).  Marlin sets the value regardless of the
    relative/absolute extruder mode."""
    q = p.copy()
    q.e = axis_target(frame.E_AXIS, p.e, v, absolute=True)
    return q


def do_fw(p, retract):
    q = p.copy()
    q.fw = retract
    return q


# ----------------------------------------------------------------------------------------------
# decoding of items of a returned command list
class Orig(object):
    """Abstract effect of the original (unfiltered) command, as the handler received it."""

    def __init__(self, kind, **kw):
        self.kind = kind      # 'move' | 'g10' | 'g11' | 'neutral'
        self.kw = kw


def hole_value(v):
    return v.value if hasattr(v, "value") else v


def item_parts(item):
    if isinstance(item, str):
        return [item]
    if hasattr(item, "parts"):
        return list(item.parts)
    return None     # opaque symbolic string


def apply_item(p, frame, item, cmd, orig):
    """Execute one element of a returned list on the printer.  Returns (printer', info)."""
    if item is cmd or (isinstance(item, str) and isinstance(cmd, str) and item == cmd) or _same_term(item, cmd):
        return apply_orig(p, frame, orig), "orig"
    parts = item_parts(item)
    if parts is None:
        return p, "neutral"          # A5: script lines / deferred commands do not move X/Y/Z/E
    ws = rs274.rope_words(parts)
    code, params = rs274.command_of(ws)
    if code in ("G0", "G1"):
        q = do_move(p, frame, e=rs274.last(params, "E"), x=rs274.last(params, "X"), y=rs274.last(params, "Y"),
                    z=rs274.last(params, "Z"))
        return q, code
    if code == "G92":
        ev = rs274.last(params, "E")
        if any(l in ("X", "Y", "Z") for (l, _) in params):
            raise ValueError("synthesised G92 with X/Y/Z is not expected")
        return (do_g92_e(p, frame, ev) if ev is not None else p), code
    if code == "G10":
        return do_fw(p, True), code
    if code == "G11":
        return do_fw(p, False), code
    return p, "neutral"


def _same_term(a, b):
    try:
        return ops.is_sym(a) and ops.is_sym(b) and a.eq(b)
    except Exception:
        return False


def apply_orig(p, frame, orig):
    if orig is None or orig.kind == "neutral":
        return p
    if orig.kind == "move":
        return do_move(p, frame, **orig.kw)
    if orig.kind == "g10":
        return do_fw(p, True)
    if orig.kind == "g11":
        return do_fw(p, False)
    raise ValueError(orig.kind)


def items_of(result):
    """Normalise a handler result to a python list of items (None / IGNORE -> [])."""
    if result is None:
        return None
    if isinstance(result, tuple):
        return []           # IGNORE_GCODE_CMD = (None,)
    if hasattr(result, "items") and not isinstance(result, dict):
        return list(result.items)
    if hasattr(result, "getter") and hasattr(result, "length"):
        # a symbolic sequence handed back as is (e.g. the configured script object itself): one spliced script
        return [_Spliced(result)]
    return list(result)


class _Spliced(object):
    def __init__(self, seq):
        self.seq = seq
        self.name = getattr(seq, "name", "seq")


def run(p, frame, result, cmd, orig):
    """Fold the returned commands over the printer.  result None => the original command runs unchanged.
    Returns (printer', log) where log lists (info, printer-before, printer-after)."""
    log = []
    items = items_of(result)
    if items is None:
        q = apply_orig(p, frame, orig)
        return q, [("orig", p, q)]
    for it in items:
        if hasattr(it, "seq") or it is None:      # spliced script (A5) / IGNORE marker
            log.append(("neutral", p, p))
            continue
        q, info = apply_item(p, frame, it, cmd, orig)
        log.append((info, p, q))
        p = q
    return p, log


def forwarded(result, cmd):
    """Is the original command among the commands sent to the printer?"""
    items = items_of(result)
    if items is None:
        return True
    return any(it is cmd or _same_term(it, cmd) or (isinstance(it, str) and isinstance(cmd, str) and it == cmd)
               for it in items)


def orig_push(log):
    """Filament pushed by the original command when it ran (0 if it did not run)."""
    for (info, a, b) in log:
        if info == "orig":
            return b.fil - a.fil
    return 0


def same_xyz(p, q):
    return And(eq(p.x, q.x), eq(p.y, q.y), eq(p.z, q.z))

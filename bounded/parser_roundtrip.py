"""C18 bounded stand-in: exhaustive over all strings up to a length bound over one representative per character
class of the line pattern, plus all sequences of up to 3 template lines with every line ending.

Clauses: consume (parseLines covers the input, every step makes progress), lossless (concatenated fullText == input),
stable (re-parsing commandString gives the same code / sub-code / parameters / commandString),
checksum (a line rendered with line number + checksum validates)."""
import itertools
import sys

from common import setup, emit, strings_upto

tier, seed, repo = sys.argv[1], int(sys.argv[2]), sys.argv[3]
setup(repo)
from octoprint_excluderegion.GcodeParser import GcodeParser  # noqa: E402

# one representative per character class distinguished by PAT_GCODE_LINE / PAT_PARAMETER_OR_STR
ALPHABET = [" ", "N", "G", "g", "M", "T", "X", "e", "1", "0", ".", "-", "\\", ";", "*", "\r", "\n", "%"]
MAXLEN = 4 if tier == "quick" else 5
TEMPLATES = ["G0", "G0*1", "N1 G0*1", "N12 G1 X1*99", " G1 X1", "  G1 X1.5 Y-2", ";c", "", " ", "G1 X1 ; c", "T0", "M117 hi*3",
             "g28 x", "G38.2 Z1", "N3 M104 S200", "   N123 G28 X", "@ExcludeRegion off", "G1 X1 *12 *83", "\;x", "M23 file.gco"]
EOLS = ["\n", "\r\n", "\r", ""]

violations = []
known = []
cases = 0
nontrivial = set()
samples = []


def classify(kind, s, detail):
    return {"clause": kind, "input": s, "detail": detail}


def check(s):
    global cases
    cases += 1
    p = GcodeParser()
    out = []
    pos = 0
    try:
        for g in p.parseLines(s):
            if g.length < 1:
                violations.append(classify("C18.progress", s, "zero-length step at %d" % g.offset))
                return
            if g.offset != pos:
                violations.append(classify("C18.consume", s, "gap: offset %d expected %d" % (g.offset, pos)))
                return
            pos += g.length
            out.append(g.fullText)
            line_checks(g, s)
    except AssertionError as e:
        violations.append(classify("C18.consume", s, "parse raised %r" % (e,)))
        return
    if pos != len(s):
        violations.append(classify("C18.consume", s, "consumed %d of %d" % (pos, len(s))))
    elif "".join(out) != s:
        violations.append(classify("C18.lossless", s, "reassembled %r" % ("".join(out),)))
    if len(out) > 0:
        nontrivial.add(s if len(s) < 12 else hash(s))


def line_checks(g, s):
    if g.gcode is None:
        return
    snap = (g.gcode, g.subCode, g.parameters, g.commandString, g.lineNumber, g.leadingWhitespace)
    c1 = snap[3]
    q = GcodeParser().parse(c1)
    again = (q.gcode, q.subCode, q.parameters, q.commandString)
    if again != snap[:4] or q.length != len(c1):
        violations.append(classify("C18.stable", s, "commandString %r re-parses as %r (was %r)" % (c1, again, snap[:4])))
    if snap[4] is not None:
        text = g.stringify(includeComment=False, includeEol=False)
        r = GcodeParser().parse(text)
        try:
            r.validate()
        except ValueError as e:
            lead = snap[5]
            item = classify("C18.checksum", s, "rendered %r does not validate: %s" % (text, e))
            if len(lead) % 2 == 1 and set(lead) == {" "}:
                item["obligation"] = "bounded/C18.checksum"
                item["case"] = "odd-leading-spaces"
                known.append(item)
            else:
                violations.append(item)


for s in strings_upto(ALPHABET, MAXLEN):
    check(s)
n_exh = cases
for k in (1, 2, 3):
    for lines in itertools.product(TEMPLATES, repeat=k) if (k < 3 or tier != "quick") else itertools.product(TEMPLATES[:10], repeat=k):
        for eols in itertools.product(EOLS[:3], repeat=k - 1):
            for last in EOLS:
                s = "".join(l + e for l, e in zip(lines, list(eols) + [last]))
                check(s)
# rendered-with-checksum lines for all line numbers 0..299 of three commands: covers every checksum value, 0 included
n_zero = 0
for cmd in ("G0 X100 Y100", "G1 X1 E.5", "M105"):
    for n in range(300):
        g = GcodeParser().parse("N%d %s" % (n, cmd))
        text = g.stringify(includeComment=False, includeEol=False)
        cases += 1
        nontrivial.add(text)
        r = GcodeParser().parse(text)
        if r.checksum == 0:
            n_zero += 1
        try:
            r.validate()
        except ValueError as e:
            violations.append(classify("C18.checksum", text, "rendered %r does not validate: %s" % (text, e)))
if cases:
    samples = ["G0*1\nG0", "   N123 G28 X", ALPHABET[1] + ALPHABET[8] + " " + ALPHABET[2] + ALPHABET[9]]
emit({"name": "bounded/parser-roundtrip", "bounded": True,
      "bound": "all strings of length <= %d over %d class representatives (%d strings) + all sequences of <= 3 of %d template lines x line endings"
               % (MAXLEN, len(ALPHABET), n_exh, len(TEMPLATES)),
      "cases": cases, "distinct_nontrivial": len(nontrivial), "exhaustive": True,
      "rule": "a case is one input text; non-trivial = at least one line parsed; distinct by text",
      "samples": samples, "violations": violations[:20], "n_violations": len(violations),
      "known": known[:3], "n_known": len(known)})

"""Shared definitions of the property files."""
ALL_CONTRACTS = ["contracts.geometry", "contracts.axis", "contracts.state", "contracts.plugin", "contracts.motion",
                 "contracts.parserstub", "contracts.handlers", "contracts.deferred", "contracts.stream", "contracts.format", "contracts.parser"]
S = "ExcludeRegionState.ExcludeRegionState."
H = "GcodeHandlers.GcodeHandlers."
P = "__init__.ExcludeRegionPlugin."
AX = "AxisPosition.AxisPosition."
REGION_FUNCS = ["RectangularRegion.RectangularRegion.containsPoint", "CircularRegion.CircularRegion.containsPoint"]
AXIS_FUNCS = [AX + m for m in ("__init__", "logicalToNative", "nativeToLogical", "setLogicalPosition", "setLogicalOffsetPosition",
                               "setHome", "setUnitMultiplier", "setAbsoluteMode")]
MOTION_FUNCS = [S + "processLinearMoves", S + "isAnyPointExcluded", S + "isPointExcluded", S + "enterExcludedRegion",
                S + "exitExcludedRegion", "RetractionState.RetractionState._addCommands"]
HANDLER_FUNCS = [H + "handleGcode"] + [H + "_handle_" + c for c in ("G0", "G1", "G2", "G3", "G10", "G11", "G20", "G21", "G28", "G90",
                                                                      "G91", "G92", "M206")]
STREAM_NOTE = ("Whole-stream reading: each clause is a post-condition of one handler call from an arbitrary state satisfying the "
               "coupling invariant Inv (state vs. ghost reference printer), and Inv is itself re-established by every handler "
               "(clause Inv-preserved); the induction over the command stream is the usual meta-argument and is not mechanised.")

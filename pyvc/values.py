"""Value model of the symbolic executor (see DESIGN.md 2.2)."""
from fractions import Fraction

import z3

from . import ops


class Unsupported(Exception):
    """The executor met a construct outside the supported subset -> verdict 'undecided' (exit 2)."""

    def __init__(self, msg, node=None, where=None):
        Exception.__init__(self, msg)
        self.node = node
        self.where = where


class PathDead(Exception):
    """Current path condition is unsatisfiable."""


class NotPure(Exception):
    """Raised inside speculative (pure) evaluation when a side effect / decision is needed."""


class PyExc(Exception):
    """A Python exception raised by the program under execution."""

    def __init__(self, tname, args=(), where=None):
        Exception.__init__(self, "%s%r" % (tname, tuple(args)))
        self.tname = tname
        self.eargs = tuple(args)
        self.where = where


_OID = [0]


def next_oid():
    _OID[0] += 1
    return _OID[0]


class Obj(object):
    """Instance of a repository class (or a named stub class).  Identity is concrete."""

    def __init__(self, cls, fields=None, clsname=None):
        object.__setattr__(self, "cls", cls)
        object.__setattr__(self, "clsname", clsname or (cls.name if cls is not None else "object"))
        object.__setattr__(self, "fields", dict(fields or {}))
        object.__setattr__(self, "oid", next_oid())
        object.__setattr__(self, "fresh", False)

    def __getattr__(self, name):  # convenience for contract lambdas
        if name in Obj._INTERNAL:
            raise AttributeError(name)
        f = object.__getattribute__(self, "fields")
        if name in f:
            v = f[name]
            if isinstance(v, Lazy):
                v = v.force()
            return v
        raise AttributeError("%s has no field %s" % (object.__getattribute__(self, "clsname"), name))

    _INTERNAL = ("fresh", "list_elem", "alloc_index", "cls", "clsname", "fields", "oid")

    def __setattr__(self, name, value):  # ghost code may assign program fields
        if name in Obj._INTERNAL:
            object.__setattr__(self, name, value)
        else:
            self.fields[name] = value

    def __repr__(self):
        return "<%s#%d>" % (self.clsname, self.oid)


class Opt(object):
    """Optional scalar: None | number (kind 'num') | string (kind 'str')."""

    def __init__(self, isnone, val, kind=None):
        self.isnone = isnone
        self.val = val
        if kind is None:
            kind = "str" if (ops.is_sym(val) and z3.is_string(val)) or isinstance(val, str) else "num"
        self.kind = kind

    def __repr__(self):
        return "Opt(%s,%s)" % (self.isnone, self.val)


class OptObj(object):
    """Optional object reference: None | obj, with a symbolic null flag (avoids forking on the shape)."""

    def __init__(self, isnone, obj):
        object.__setattr__(self, "isnone", isnone)
        object.__setattr__(self, "obj", obj)

    @property
    def val(self):
        return self.obj

    def __getattr__(self, name):       # contract lambdas: fields of the referenced object (guard with is_none!)
        return getattr(object.__getattribute__(self, "obj"), name)

    def __repr__(self):
        return "OptObj(%s,%r)" % (self.isnone, self.obj)


class Lazy(object):
    """A field whose shape is chosen (ctx.choose) only when it is first read.  Payloads must be immutable."""

    def __init__(self, ctx, name, alternatives):
        self.ctx = ctx
        self.name = name
        self.alternatives = alternatives    # list of thunks
        self.forced = False
        self.value = None

    def force(self):
        if not self.forced:
            k = self.ctx.choose(len(self.alternatives), "lazy " + self.name)
            self.ctx.symbols["lazy." + self.name] = _Const(k)
            self.value = self.alternatives[k]()
            self.forced = True
        return self.value


class _Const(object):
    def __init__(self, v):
        self.v = v

    def model_value(self, m):
        return self.v


class Hole(object):
    """A formatted value inside a string ("{e}".format(e=v) / str(v))."""

    def __init__(self, value, plain=False):
        self.value = value
        self.plain = plain        # rendered by the repository's formatNumber (never exponent notation)

    def __repr__(self):
        return "{%s%s}" % ("plain:" if self.plain else "", self.value)


class SStr(object):
    """String rope: concrete text, symbolic opaque strings (z3 String terms) and number holes."""

    def __init__(self, parts):
        out = []
        for p in parts:
            if isinstance(p, SStr):
                ps = p.parts
            else:
                ps = [p]
            for q in ps:
                if isinstance(q, str):
                    if q == "":
                        continue
                    if out and isinstance(out[-1], str):
                        out[-1] += q
                        continue
                out.append(q)
        self.parts = out

    def __repr__(self):
        return "SStr(%s)" % "".join(p if isinstance(p, str) else "<%s>" % (p,) for p in self.parts)

    def render(self):
        return "".join(p if isinstance(p, str) else "<%s>" % (p,) for p in self.parts)


def mkstr(parts):
    s = SStr(parts)
    if not s.parts:
        return ""
    if len(s.parts) == 1 and (isinstance(s.parts[0], str) or ops.is_sym(s.parts[0])):
        return s.parts[0]
    return s


class PyList(object):
    """A Python list with concrete length (items may be symbolic)."""

    def __init__(self, items=None):
        self.items = list(items or [])
        self.oid = next_oid()
        self.fresh = False

    def __len__(self):
        return len(self.items)

    def __getitem__(self, i):
        return self.items[i]

    def __iter__(self):
        return iter(self.items)

    def __repr__(self):
        return "PyList%r" % (self.items,)


class PyDict(object):
    """Insertion-ordered dict with concrete keys."""

    def __init__(self, items=None):
        self.d = dict(items or {})
        self.oid = next_oid()
        self.fresh = False

    def __repr__(self):
        return "PyDict%r" % (self.d,)

    def get(self, k, dflt=None):
        return self.d.get(k, dflt)

    def __getitem__(self, k):
        return self.d[k]

    def __contains__(self, k):
        return k in self.d


class Splice(object):
    """A symbolic sub-sequence spliced into a rope (e.g. the configured enter/exit script)."""

    def __init__(self, name, seq=None):
        self.name = name
        self.seq = seq

    def __repr__(self):
        return "*%s" % self.name


class SymSeq(object):
    """Immutable symbolic sequence: symbolic length and element accessor."""

    def __init__(self, length, getter, name="seq"):
        self.length = length
        self.getter = getter
        self.name = name

    def get(self, k):
        return self.getter(k)

    def __repr__(self):
        return "SymSeq(%s,len=%s)" % (self.name, self.length)


class BoundMethod(object):
    def __init__(self, obj, finfo):
        self.obj = obj
        self.finfo = finfo

    def __repr__(self):
        return "<bound %s of %r>" % (self.finfo.qualname, self.obj)


class ClassRef(object):
    """A reference to a repository class (callable: constructor)."""

    def __init__(self, cinfo):
        self.cinfo = cinfo

    def __repr__(self):
        return "<classref %s>" % self.cinfo.name


class ExtClass(object):
    """External (stub) class, e.g. ValueError, OrderedDict, Mapping."""

    def __init__(self, name):
        self.name = name

    def __repr__(self):
        return "<extclass %s>" % self.name


class ExtModule(object):
    def __init__(self, name):
        self.name = name

    def __repr__(self):
        return "<extmodule %s>" % self.name


class Model(object):
    """Base class of Python-implemented model objects (stubs with assumed contracts)."""

    clsname = "model"

    def call_method(self, interp, name, args, kwargs, node):
        raise Unsupported("method %s on model %s" % (name, self.clsname), node)

    def get_attr(self, interp, name, node):
        raise Unsupported("attribute %s on model %s" % (name, self.clsname), node)


def is_number(v):
    return (isinstance(v, (int, Fraction)) and not isinstance(v, bool)) or \
        (ops.is_sym(v) and (z3.is_real(v) or z3.is_int(v)))


def is_bool(v):
    return isinstance(v, bool) or (ops.is_sym(v) and z3.is_bool(v))


def is_symstr(v):
    return ops.is_sym(v) and z3.is_string(v)


def is_strlike(v):
    return isinstance(v, (str, SStr)) or is_symstr(v)


def to_real(v):
    """Number -> z3 Real term."""
    if isinstance(v, bool):
        return z3.RealVal(1 if v else 0)
    if isinstance(v, int):
        return z3.RealVal(v)
    if isinstance(v, Fraction):
        return z3.Q(v.numerator, v.denominator)
    if ops.is_sym(v):
        if z3.is_int(v):
            return z3.ToReal(v)
        return v
    raise TypeError("not a number: %r" % (v,))


def conc_number(v):
    return isinstance(v, (int, Fraction)) and not isinstance(v, bool)


def simp(e):
    if ops.is_sym(e):
        return z3.simplify(e)
    return e


def as_const_bool(e):
    """z3 Bool term -> True/False if it simplifies to a constant else None."""
    if isinstance(e, bool):
        return e
    s = z3.simplify(e)
    if z3.is_true(s):
        return True
    if z3.is_false(s):
        return False
    return None


class Opaque(Model):
    """A field the function under contract is not supposed to read: every operation on it is
    outside the contract (verdict 'undecided', never 'holds')."""

    def __init__(self, name):
        self.clsname = "opaque:" + name
        self.name = name

    def call_method(self, interp, name, args, kwargs, node):
        raise Unsupported("the contract declares '%s' as not read, but the code uses it (.%s)" % (self.name, name), node)

    def get_attr(self, interp, name, node):
        raise Unsupported("the contract declares '%s' as not read, but the code reads .%s" % (self.name, name), node)

    def copy(self, memo=None):
        return self

    def struct_eq(self, other):
        return self is other

    def read(self, key):
        return self

"""Abstract view of a parsed command: the sequence of (letter, value) items that
GcodeParser.parse(cmd).parameterItems() yields, as uninterpreted functions of the command string.
(The parser itself is checked against an independent RS274 reader in C19; here the items are what the
handler 'saw'.)"""
import z3

from . import ops
from .values import Model, SymSeq, Opt, Unsupported

S = z3.StringSort()
ItemsLen = z3.Function("items.len", S, z3.IntSort())
ItemsLabel = z3.Function("items.label", S, z3.IntSort(), z3.IntSort())      # character code of the upper-case letter; 0 = ''
ItemsNone = z3.Function("items.isnone", S, z3.IntSort(), z3.BoolSort())
ItemsVal = z3.Function("items.value", S, z3.IntSort(), z3.RealSort())

# last value per letter among the first k items (recursive spec function, C19b)
LastHas = z3.RecFunction("items.last_has", S, z3.IntSort(), z3.IntSort(), z3.BoolSort())
LastVal = z3.RecFunction("items.last_val", S, z3.IntSort(), z3.IntSort(), z3.RealSort())
_s, _l, _k = z3.String("s!"), z3.Int("l!"), z3.Int("k!")
_hit = z3.And(ItemsLabel(_s, _k - 1) == _l, z3.Not(ItemsNone(_s, _k - 1)))
z3.RecAddDefinition(LastHas, [_s, _l, _k], z3.If(_k <= 0, z3.BoolVal(False), z3.If(_hit, z3.BoolVal(True), LastHas(_s, _l, _k - 1))))
z3.RecAddDefinition(LastVal, [_s, _l, _k], z3.If(_k <= 0, z3.RealVal(0), z3.If(_hit, ItemsVal(_s, _k - 1), LastVal(_s, _l, _k - 1))))

# "some item among the first k has this letter" (with or without value)
HasLetter = z3.RecFunction("items.has_letter", S, z3.IntSort(), z3.IntSort(), z3.BoolSort())
z3.RecAddDefinition(HasLetter, [_s, _l, _k], z3.If(_k <= 0, z3.BoolVal(False),
                                                   z3.If(ItemsLabel(_s, _k - 1) == _l, z3.BoolVal(True), HasLetter(_s, _l, _k - 1))))


# index of the last item with a given letter among the first k items (with or without a value); -1 if none
LastIdx = z3.RecFunction("items.last_idx", S, z3.IntSort(), z3.IntSort(), z3.IntSort())
z3.RecAddDefinition(LastIdx, [_s, _l, _k], z3.If(_k <= 0, z3.IntVal(-1),
                                                 z3.If(ItemsLabel(_s, _k - 1) == _l, _k - 1, LastIdx(_s, _l, _k - 1))))


class Label(Model):
    """A parameter letter (single upper-case character or '')."""

    clsname = "str"

    def __init__(self, code):
        self.code = code

    def call_method(self, interp, name, args, kwargs, node):
        if name == "__eq__":
            other = args[0]
            if isinstance(other, str):
                if len(other) == 1:
                    return self.code == ord(other)
                if other == "":
                    return self.code == 0
                return False
            if isinstance(other, Label):
                return self.code == other.code
            return False
        if name == "__bool__":
            return self.code != 0
        raise Unsupported("label.%s" % name, node)

    def struct_eq(self, other):
        return self.code == other.code


def items_of(src):
    """SymSeq of (Label, Opt value) for the command string term `src`."""
    n = ItemsLen(src)
    return SymSeq(n, lambda k: (Label(ItemsLabel(src, k)), Opt(ItemsNone(src, k), ItemsVal(src, k))), name="items")


def last_opt(src, letter, k=None):
    """Optional value: the last item with that letter and a value among the first k (default: all)."""
    k = ItemsLen(src) if k is None else k
    code = z3.IntVal(ord(letter))
    return Opt(z3.Not(LastHas(src, code, k)), LastVal(src, code, k))


def has_letter(src, letter, k=None):
    """Some item among the first k carries that letter (with or without a value)."""
    k = ItemsLen(src) if k is None else k
    code = ord(letter)
    return ops.Exists(0, k, lambda j: ItemsLabel(src, j) == code)


class ItemsReader(object):
    """Reads the items of a command out of a solver model (for native replay)."""

    def __init__(self, src):
        self.src = src

    def model_value(self, m):
        from .verify import model_value
        n = m.eval(ItemsLen(self.src), model_completion=True).as_long()
        out = []
        for i in range(max(0, min(n, 8))):
            ii = z3.IntVal(i)
            code = m.eval(ItemsLabel(self.src, ii), model_completion=True).as_long()
            isn = z3.is_true(m.eval(ItemsNone(self.src, ii), model_completion=True))
            v = model_value(m.eval(ItemsVal(self.src, ii), model_completion=True))
            out.append({"code": code, "none": isn, "value": v})
        return {"items": out, "len": n}

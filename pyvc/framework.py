"""Stubs of the OctoPrint framework objects injected into the plugin (assumption A3)."""
from .values import Model, Unsupported, PyList, next_oid


class PluginManager(Model):
    """self._plugin_manager: send_plugin_message(id, msg) appends msg to a ghost log."""

    clsname = "PluginManager"

    def __init__(self):
        self.log = PyList([])
        self.oid = next_oid()

    def call_method(self, interp, name, args, kwargs, node):
        if name == "send_plugin_message":
            interp.ctx.assumed.add("A3:send_plugin_message(id, msg) delivers msg (ghost log)")
            interp.ctx.log_write(self.log, "[]")
            self.log.items.append((args[0], args[1]))
            return None
        raise Unsupported("PluginManager.%s" % name, node)

    def copy(self, memo=None):
        c = PluginManager()
        c.log = PyList(list(self.log.items))
        return c

    def children(self):
        return [self.log]

    def read(self, key):
        return self.log


class Comm(Model):
    """commInstance: isStreaming() is an unconstrained Boolean fixed for the call; sendCommand(c) appends to a ghost log."""

    clsname = "MachineCom"

    def __init__(self, streaming):
        self.streaming = streaming
        self.sent = PyList([])
        self.oid = next_oid()

    def call_method(self, interp, name, args, kwargs, node):
        if name == "isStreaming":
            return self.streaming
        if name == "sendCommand":
            interp.ctx.assumed.add("A3:commInstance.sendCommand(c) sends c to the printer (ghost log)")
            interp.ctx.log_write(self.sent, "[]")
            self.sent.items.append(args[0])
            return None
        raise Unsupported("commInstance.%s" % name, node)

    def copy(self, memo=None):
        c = Comm(self.streaming)
        c.sent = PyList(list(self.sent.items))
        return c

    def children(self):
        return [self.sent]

    def read(self, key):
        return self.sent


class GcodeTable(Model):
    """extendedExcludeGcodes: dict gcode -> ExcludedGcode.  get(gcode) returns None or an entry whose mode is one
    of the four configured modes (asserted by ExcludedGcode.__init__)."""

    clsname = "dict"

    def __init__(self, program, ctx):
        import z3
        self.program = program
        self.oid = next_oid()
        # the configuration's answer for the code being processed (one lookup per call)
        self.mode = ctx.string("entry.mode")
        self.isnone = ctx.bool("entry.isnone")
        ctx.assume(z3.Or(*[self.mode == z3.StringVal(m) for m in ("exclude", "first", "last", "merge")]))

    def call_method(self, interp, name, args, kwargs, node):
        if name == "get":
            from .values import Obj, OptObj
            e = Obj(self.program.find_class("ExcludedGcode"), {"gcode": args[0], "mode": self.mode, "description": "configured"})
            return OptObj(self.isnone, e)
        raise Unsupported("extendedExcludeGcodes.%s" % name, node)

    def copy(self, memo=None):
        return self

    def struct_eq(self, other):
        return self is other

    def read(self, key):
        return self


class Settings(Model):
    """self._settings (plugin settings) and octoprint.settings.settings() (global settings): get / get_boolean /
    getBoolean of a path return the value the pre-state builder stored for that path -- a distinct symbolic value per key,
    so that reading the wrong key is visible (assumption A3: the framework hands back what is configured)."""

    clsname = "Settings"

    def __init__(self, values):
        self.values = dict(values)
        self.oid = next_oid()

    def call_method(self, interp, name, args, kwargs, node):
        if name in ("get", "get_boolean", "getBoolean", "get_int", "get_float") and len(args) == 1:
            path = args[0]
            items = path.items if hasattr(path, "items") and not isinstance(path, dict) else path
            if not all(isinstance(x, str) for x in items):
                raise Unsupported("settings path %r" % (path,), node)
            key = ".".join(items)
            if key not in self.values:
                raise Unsupported("setting %r is not part of the contract's pre-state" % key, node)
            interp.ctx.assumed.add("A3:settings.get(path) returns the configured value of that path")
            return self.values[key]
        raise Unsupported("settings.%s" % name, node)

    def copy(self, memo=None):
        return self

    def struct_eq(self, other):
        return self is other

    def read(self, key):
        return self

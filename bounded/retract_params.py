"""C05 bounded stand-in for RetractionState.GCODE_PARAMS_REGEX (the executor sees `GCODE_PARAMS_REGEX.sub("\\1", cmd)` as
the uninterpreted function 'parameter text of cmd'): the firmware-retraction commands the filter generates carry exactly
the parameter text of the original command.

Space: code in {G10, G11, g10, g11, G10.1} x separator in {'', ' ', '  ', tab} x parameter text in 9 spellings (empty, S1,
S0, 'S1 P2', lower case, signed / decimal values, trailing blank) -- every combination; plus the generated command of a
real RetractionState for each (both directions).  The reference is spec/rs274.params_text, an independent scan."""
import itertools
import sys

from common import setup, emit

tier, seed, repo = sys.argv[1], int(sys.argv[2]), sys.argv[3]
setup(repo)
from octoprint_excluderegion.RetractionState import RetractionState, GCODE_PARAMS_REGEX  # noqa: E402
from octoprint_excluderegion.Position import Position  # noqa: E402
from spec import rs274  # noqa: E402

CODES = ["G10", "G11", "g10", "g11", "G10.1"]
SEPS = ["", " ", "  ", "\t"]
PARAMS = ["", "S1", "S0", "S1 P2", "s1", "S-1.5", "S+0.25 L3", "P0 S1 ", "S1  P2"]
violations, cases = [], 0
for code, sep, par in itertools.product(CODES, SEPS, PARAMS):
    if sep == "" and par and par[0].isdigit():
        continue
    cmd = code + (sep + par if par else "")
    cases += 1
    got = GCODE_PARAMS_REGEX.sub("\\1", cmd)
    want = rs274.params_text(cmd)
    if got != want:
        violations.append({"clause": "C05.retract-parameter-text", "input": repr(cmd), "detail": "regex gives %r, reference %r" % (got, want)})
        continue
    for direction, head in ((1, "G10"), (-1, "G11")):
        rs = RetractionState(originalCommand=cmd, firmwareRetract=True)
        pos = Position()
        pos.E_AXIS.current = 0.0
        out = rs._addCommands(direction, pos)
        cases += 1
        exp = head + ((" " + want) if want else "")
        if out is not None and list(out) != [exp]:
            violations.append({"clause": "C05.retract-parameter-text", "input": repr(cmd), "detail": "generated %r, expected %r" % (out, [exp])})
emit({"name": "bounded/retract-params", "bounded": True,
      "bound": "%d codes x %d separators x %d parameter texts, both directions" % (len(CODES), len(SEPS), len(PARAMS)),
      "cases": cases, "distinct_nontrivial": cases, "exhaustive": True, "rule": "a case is one original command (and one generated command)",
      "samples": ["'G10 S1' -> 'S1'", "'g10  s1' -> 's1'"], "violations": violations[:20], "n_violations": len(violations)})

"""Contracts for ExcludeRegionPlugin (the OctoPrint-facing layer): C11, C12, C13, C15, C10."""
from pyvc.contracts import contract
from pyvc import ops
from pyvc.ops import And, Or, Not, Implies, Iff, If, eq, is_none, val, ForAll, Exists, str_eq
from spec import geometry as G
from spec import registry as R
from spec import lifecycle as LC
from contracts.state import mk_state, mk_regions, witness
from contracts.geometry import mk_rect, mk_circle


def mk_plugin(b, state=None, **o):
    st = state if state is not None else mk_state(b, **o)
    lg = st._logger
    handlers = b.new("GcodeHandlers", state=st, _logger=lg, gcodeParser=b.opaque("handlers.gcodeParser"))
    return b.new("ExcludeRegionPlugin", _logger=lg, _activePrintJob=b.bool("activePrintJob"),
                 clearRegionsAfterPrintFinishes=b.bool("clearRegionsAfterPrintFinishes"),
                 mayShrinkRegionsWhilePrinting=b.bool("mayShrinkRegionsWhilePrinting"),
                 state=st, gcodeHandlers=handlers, _plugin_manager=b.plugin_manager(),
                 _identifier="excluderegion", _loggingMode="octoprint", _pluginLoggingHandler=None)


def regions_of(p):
    return p.state.excludedRegions


def messages(p):
    return p._plugin_manager.log


def payload_matches(msg, regions):
    """A notification (identifier, dict) carries exactly the current list, in order."""
    ident, body = msg
    if isinstance(body, dict):      # native
        return ident == "excluderegion" and body.get("event") == "ExcludedRegionsChanged" and \
            body.get("excluded_regions") == [r.toDict() for r in regions]
    seq = body.d["excluded_regions"]
    ok = (ident == "excluderegion") and body.d.get("event") == "ExcludedRegionsChanged"
    return And(ok, view_matches(seq, regions))


def view_matches(seq, regions):
    if isinstance(seq, list):       # native
        return seq == [r.toDict() for r in regions]
    n = R.rl_len(regions)
    if hasattr(seq, "items"):       # concrete list built by the executor
        return And(eq(len(seq.items), n), *[deep_eq_dict(seq.items[k], R.rl_elem(regions, k)) for k in range(len(seq.items))])
    return And(eq(seq.length, n), ForAll(0, n, lambda k: R.region_same(seq.get(k).elem, R.rl_elem(regions, k))))


def deep_eq_dict(d, elem):
    """toDict() of a concrete region object vs. a list element."""
    if hasattr(d, "elem"):
        return R.region_same(d.elem, elem)
    raise NotImplementedError("toDict of a concrete region in a concrete list")


def notified_once_with_current(f):
    log = messages(f.self)
    if len(log) != len(messages(f.old.self)) + 1:
        return False
    return payload_matches(log[-1], regions_of(f.self))


def not_notified(f):
    return len(messages(f.self)) == len(messages(f.old.self))


def changed(f):
    return Not(R.same_list(regions_of(f.self), regions_of(f.old.self)))


def c13_notification(f):
    """Every change of the list is followed by exactly one notification carrying the new list; without a change
    there is at most one, and it carries the (unchanged) current list."""
    log, old = messages(f.self), messages(f.old.self)
    extra = len(log) - len(old)
    if extra == 0:
        return Not(changed(f))
    if extra == 1:
        return payload_matches(log[-1], regions_of(f.self))
    return False


def c12_guard(f):
    return And(f.old.self._activePrintJob, Not(f.old.self.mayShrinkRegionsWhilePrinting))


def c12_monotone(f):
    """For the arbitrary (ghost) point p: excluded before => excluded after, while printing without permission."""
    px, py = f.g["px"], f.g["py"]
    return Implies(And(c12_guard(f), R.excluded_op(regions_of(f.old.self), px, py)),
                   R.excluded_op(regions_of(f.self), px, py))


def c12_reveals(f):
    """Definitional unfoldings the monotonicity argument needs: `excluded` on both lists, and the per-region
    predicate for the replaced element (old and new value) and for an added region."""
    px, py = f.g["px"], f.g["py"]
    out = [R.reveal_excluded(regions_of(f.old.self), px, py), R.reveal_excluded(regions_of(f.self), px, py)]
    for key in ("newRegion", "region"):
        if f.a.has(key) and getattr(f.a, key) is not None:
            out.append(R.reveal_contains(getattr(f.a, key), px, py))
    k = f.g.get("ExcludeRegionState.ExcludeRegionState.replaceRegion/loop0.k")
    if k is not None:
        out.append(R.reveal_contains(R.rl_elem(regions_of(f.old.self), k), px, py))
        out.append(R.reveal_contains(R.rl_elem(regions_of(f.self), k), px, py))
    return out


# ---------------------------------------------------------------------------------------------
@contract("__init__.ExcludeRegionPlugin._notifyExcludedRegionsChanged")
def _(c):
    c.pre(lambda b: {"self": mk_plugin(b, minimal=True), "args": {}})
    c.modifies("self._plugin_manager.log.[]")
    c.ensures("C13.notify-current-list", notified_once_with_current, props=("C13",))


@contract("__init__.ExcludeRegionPlugin.on_api_get")
def _(c):
    c.native_incomplete = True        # flask.jsonify needs an application context
    c.pre(lambda b: {"self": mk_plugin(b, minimal=True), "args": {"request": b.opaque("request")}})
    c.modifies()
    c.ensures("C13.get-returns-current-list",
              lambda f: view_matches(f.result["excluded_regions"] if isinstance(f.result, dict)
                                     else f.result.d["excluded_regions"], regions_of(f.self)), props=("C13",))


def ghost_point(b):
    return {"px": b.real("p.x"), "py": b.real("p.y")}


@contract("__init__.ExcludeRegionPlugin._handleAddExcludeRegion")
def _(c):
    def pre(b):
        from contracts.state import mk_region_arg
        return {"self": mk_plugin(b, minimal=True), "args": {"region": mk_region_arg(b, "new")}, "ghost": ghost_point(b)}
    c.pre(pre)
    c.requires("unique-ids", lambda f: R.unique_ids(regions_of(f.self)))
    c.modifies("self.state.excludedRegions.[]", "self._plugin_manager.log.[]")
    c.ensures("C13.add", lambda f: If_(f.result is None,
                                       lambda: And(R.is_append(regions_of(f.self), regions_of(f.old.self), f.a.region),
                                                   notified_once_with_current(f)),
                                       lambda: And(R.same_list(regions_of(f.self), regions_of(f.old.self)), not_notified(f),
                                                   f.result[1] == 409)), props=("C13", "C12"))
    c.ensures("C13.ids-unique", lambda f: R.unique_ids(regions_of(f.self)), props=("C13",))


def If_(cond, a, b):
    return a() if cond else b()


@contract("__init__.ExcludeRegionPlugin._handleDeleteExcludeRegion")
def _(c):
    c.pre(lambda b: {"self": mk_plugin(b, minimal=True), "args": {"idToDelete": b.string("id")}, "ghost": ghost_point(b)})
    c.requires("unique-ids", lambda f: R.unique_ids(regions_of(f.self)))
    c.modifies("self.state.excludedRegions.[]", "self._plugin_manager.log.[]")
    c.ensures("C12.delete-refused-while-printing", lambda f: Implies(
        And(f.old.self._activePrintJob, Not(f.old.self.mayShrinkRegionsWhilePrinting)),
        And(f.result is not None and f.result[1] == 409,
            R.same_list(regions_of(f.self), regions_of(f.old.self)), not_notified(f))), props=("C12", "C13"))
    c.ensures("C13.notification", c13_notification, props=("C13",))
    c.ensures("C13.rejected-leaves-list", lambda f: Implies(f.result is not None,
                                                            R.same_list(regions_of(f.self), regions_of(f.old.self))),
              props=("C13", "C12"))
    c.ensures("C13.ids-unique", lambda f: R.unique_ids(regions_of(f.self)), props=("C13",))


@contract("__init__.ExcludeRegionPlugin._handleUpdateExcludeRegion")
def _(c):
    def pre(b):
        from contracts.state import mk_region_arg
        reg = mk_region_arg(b, "new")
        if b.choose(2, "id None?") == 1:
            reg.id = None
        return {"self": mk_plugin(b, minimal=True), "args": {"newRegion": reg}, "ghost": ghost_point(b)}
    c.pre(pre)
    c.requires("unique-ids", lambda f: R.unique_ids(regions_of(f.self)))
    c.modifies("self.state.excludedRegions.[]", "self._plugin_manager.log.[]")
    c.ensures("C13.notification", c13_notification, props=("C13",))
    c.ensures("C13.rejected-leaves-list", lambda f: Implies(f.result is not None, And(
        R.same_list(regions_of(f.self), regions_of(f.old.self)), not_notified(f))), props=("C13", "C12"))
    c.ensures("C13.ids-unique", lambda f: R.unique_ids(regions_of(f.self)), props=("C13",))
    c.ensures("C12.never-shrinks", c12_monotone, props=("C12",))
    c.reveal(c12_reveals)




# ---------------------------------------------------------------------------------------------
# on_api_command: routing + authorisation
def mk_api_data(b):
    d = {"type": b.string("data.type")}
    if b.choose(2, "id present?") == 0:
        d["id"] = b.string("data.id")
    for k in ("x1", "y1", "x2", "y2", "cx", "cy", "r"):
        d[k] = b.real("data." + k)
    return b.dict(d)


@contract("__init__.ExcludeRegionPlugin.on_api_command")
def _(c):
    def pre(b):
        anon = b.bool("anonymous")
        b.set_current_user(anon)
        g = ghost_point(b)
        g["anonymous"] = anon
        return {"self": mk_plugin(b, minimal=True), "args": {"command": b.string("command"), "data": mk_api_data(b)}, "ghost": g}
    c.pre(pre)
    c.requires("unique-ids", lambda f: R.unique_ids(regions_of(f.self)))
    c.modifies("self.state.excludedRegions.[]", "self._plugin_manager.log.[]")
    c.ensures("C13.anonymous-rejected", lambda f: Implies(f.g["anonymous"], And(
        f.result == ("Insufficient rights", 403) if isinstance(f.result, tuple) else False,
        R.same_list(regions_of(f.self), regions_of(f.old.self)), not_notified(f))), props=("C13", "C12"))
    c.ensures("C13.notification", c13_notification, props=("C13",))
    c.ensures("C13.rejected-leaves-list", lambda f: Implies(f.result is not None, And(
        R.same_list(regions_of(f.self), regions_of(f.old.self)), not_notified(f))), props=("C13", "C12"))
    c.ensures("C13.ids-unique", lambda f: R.unique_ids(regions_of(f.self)), props=("C13",))
    c.ensures("C12.never-shrinks", c12_monotone, props=("C12",))
    c.reveal(lambda f: c12_reveals_api(f))


def c12_reveals_api(f):
    px, py = f.g["px"], f.g["py"]
    out = [R.reveal_excluded(regions_of(f.old.self), px, py), R.reveal_excluded(regions_of(f.self), px, py)]
    k = f.g.get("ExcludeRegionState.ExcludeRegionState.replaceRegion/loop0.k")
    new, old = regions_of(f.self), regions_of(f.old.self)
    if k is not None:
        out.append(R.reveal_contains(R.rl_elem(old, k), px, py))
        out.append(R.reveal_contains(R.rl_elem(new, k), px, py))
    return out


# ---------------------------------------------------------------------------------------------
# lifecycle
PER_PRINT_FIELDS = ("position", "feedRate", "feedRateUnitMultiplier", "_exclusionEnabled", "excluding",
                    "excludeStartTime", "numExcludedCommands", "numCommands", "lastRetraction", "lastPosition",
                    "pendingCommands")
CONFIG_FIELDS = ("_logger", "g90InfluencesExtruder", "enteringExcludedRegionGcode", "exitingExcludedRegionGcode",
                 "extendedExcludeGcodes", "atCommandActions", "gcodeParser")


def delegation_summary(name):
    """Call-site view of GcodeHandlers.handleGcode / handleAtCommand for the hook layer: the call is logged
    (ghost), its result is an opaque token, and everything reachable from the state is considered changed."""
    def summary(f):
        log = f.g.setdefault("delegated", [])
        tok = ("<result of %s #%d>" % (name, len(log)),)
        log.append((name, dict((k, v) for k, v in f.args.items() if k != "self"), tok))
        st = f.self.state
        from pyvc.values import Opaque
        for k in list(st.fields):
            if k != "_logger":
                f.interp.ctx.log_write(st, k)
                st.fields[k] = Opaque("state.%s after %s" % (k, name))
        # the handlers parse the command with their own parser instance
        parser = f.self.fields.get("gcodeParser") if name == "handleGcode" else None
        if hasattr(parser, "fields"):
            for k in list(parser.fields):
                f.interp.ctx.log_write(parser, k)
                parser.fields[k] = Opaque("handlers.gcodeParser.%s after %s" % (k, name))
        override = f.g.get("delegate_result")
        if override is not None:
            return override(f, name, tok)
        return tok
    return summary


@contract("GcodeHandlers.GcodeHandlers.handleGcode")
def _(c):
    c.summary(delegation_summary("handleGcode"))
    c.use_modular()


@contract("GcodeHandlers.GcodeHandlers.handleAtCommand")
def _(c):
    c.summary(delegation_summary("handleAtCommand"))
    c.use_modular()


def untouched(f):
    """Nothing reachable from the plugin or the arguments was written and nothing was delegated to the handlers."""
    return f.unchanged() and len(f.g.get("delegated", [])) == 0


def state_fields(b):
    return dict(enter="opaque", exit="opaque", position="opaque", lastRetraction="opaque", lastPosition="opaque",
                pending="opaque")


@contract("__init__.ExcludeRegionPlugin.handleGcodeQueuing")
def _(c):
    def pre(b):
        from contracts.motion import mk_motion_state, mk_printer
        p = mk_plugin(b, state=mk_motion_state(b, extended=b.gcode_table()))
        k = b.choose(3, "gcode")
        gcode = [None, "", b.string("gcode")][k]
        g = {"P": mk_printer(b)}
        b.spy(g, p.gcodeHandlers, "handleGcode")
        return {"self": p, "args": {"commInstance": b.comm(b.bool("streaming")), "phase": "queuing", "cmd": b.string("cmd"),
                                    "cmdType": None, "gcode": gcode, "subcode": None, "tags": None}, "ghost": g}
    c.pre(pre)
    c.requires("Inv", lambda f: hook_inv(f))
    c.requires("deferred-table-domain", lambda f: True if (f.a.gcode is None or (isinstance(f.a.gcode, str) and not f.a.gcode)) else hook_deferred(f))
    c.modifies(lambda f: [(f.self.state, k) for k in f.self.state.fields] if truthy_active(f) else [])
    c.ensures("C11.inactive-is-transparent", lambda f: Implies(Not(f.old.self._activePrintJob),
                                                               And(f.result is None, untouched(f))), props=("C11",))
    c.ensures("C11.active-delegates-once", lambda f: delegates(f, "handleGcode"), props=("C11", "C20", "C02"))


def truthy_active(f):
    return True


def hook_deferred(f):
    from contracts.handlers import deferred_domain_of
    return deferred_domain_of(f.self.state, f.a.cmd, f.a.gcode)


def hook_inv(f):
    """The state/printer coupling invariant (established by print start + homing, preserved by every handler)."""
    from contracts.motion import inv_all, inv_e
    return And(inv_all(f.self.state, f.g["P"]), inv_e(f.self.state, f.g["P"]))


def delegates(f, name):
    log = f.g.get("delegated", [])
    if len(log) == 0:
        return f.result is None
    if len(log) != 1 or log[0][0] != name:
        return False
    args, tok = log[0][1], log[0][2]
    ok = And(f.old.self._activePrintJob, f.result is tok if name == "handleGcode" else True)
    for k in ("cmd", "gcode", "subcode", "parameters", "commInstance"):
        if k in args and f.a.has(k):
            a, b_ = args[k], getattr(f.a, k)
            ok = And(ok, (a is b_) if not ops.is_sym(a) else str_eq(a, b_))
    return ok


@contract("__init__.ExcludeRegionPlugin.handleAtCommandQueuing")
def _(c):
    def pre(b):
        from contracts.motion import mk_motion_state, mk_printer
        p = mk_plugin(b, state=mk_motion_state(b))
        g = {"P": mk_printer(b)}
        b.spy(g, p.gcodeHandlers, "handleAtCommand")
        return {"self": p,
                "args": {"commInstance": b.comm(b.bool("streaming")), "phase": "queuing",
                         "cmd": b.string("cmd"), "parameters": b.string("parameters"), "tags": None}, "ghost": g}
    c.pre(pre)
    c.requires("Inv", lambda f: hook_inv(f))
    c.modifies(lambda f: [(f.self.state, k) for k in f.self.state.fields])
    c.ensures("C11.inactive-is-transparent", lambda f: Implies(Not(f.old.self._activePrintJob),
                                                               And(f.result is None, untouched(f))), props=("C11",))
    c.ensures("C11.active-delegates-once", lambda f: delegates(f, "handleAtCommand"), props=("C11", "C20", "C14"))
    c.ensures("C11.hook-returns-none", lambda f: f.result is None, props=("C11",))


# ---------------------------------------------------------------------------------------------
# on_event / resetState : C11 lifecycle automaton, C10 clean state
def fresh_state(f, logger):
    """A freshly constructed ExcludeRegionState (computed by running the real constructor)."""
    if getattr(f, "native", False):
        from octoprint_excluderegion.ExcludeRegionState import ExcludeRegionState
        return ExcludeRegionState(logger)
    if "fresh_state" not in f.g:
        cinfo = f.interp.program.find_class("ExcludeRegionState")
        w = len(f.ctx.writes)
        f.g["fresh_state"] = f.interp.construct(cinfo, [logger], {})
        del f.ctx.writes[w:]
    return f.g["fresh_state"]


def field(o, k):
    return o.fields[k] if hasattr(o, "fields") else getattr(o, k)


def deep_eq(a, b):
    if hasattr(a, "fields") or hasattr(a, "arrays") or hasattr(a, "struct_eq") or ops.is_sym(a) or ops.is_sym(b) \
            or hasattr(a, "isnone") or hasattr(b, "isnone"):
        from pyvc.heap import struct_eq
        return struct_eq(a, b)
    from pyvc.native import describe
    return describe(a) == describe(b)


def per_print_clean(state, fresh):
    return And(*[deep_eq(field(state, k), field(fresh, k)) for k in PER_PRINT_FIELDS])


def per_print_same(new, old):
    return And(*[deep_eq(field(new, k), field(old, k)) for k in PER_PRINT_FIELDS])


def config_same(new, old):
    return And(*[deep_eq(field(new, k), field(old, k)) for k in CONFIG_FIELDS])


EVENT_CHOICES = LC.ENDING + (LC.STARTED, LC.FILE_SELECTED) + LC.NEUTRAL + (None,)


@contract("__init__.ExcludeRegionPlugin.on_event")
def _(c):
    def pre(b):
        k = b.choose(len(EVENT_CHOICES), "event")
        ev = EVENT_CHOICES[k]
        if ev is None:
            sym = b.string("event")
            for known in LC.KNOWN:
                b.assume(Not(str_eq(sym, known)))
            arg = sym if not b.native else "SomeOtherEvent"
        else:
            arg = ev
        p = mk_plugin(b, **state_fields(b))
        return {"self": p, "args": {"event": arg, "payload": b.opaque("payload")}, "ghost": {"event": ev}}
    c.pre(pre)   # SETTINGS_UPDATED is outside the contract (settings plumbing is unverified surroundings)

    def lifecycle(f):
        old, new = f.old.self, f.self
        act, cleared, reset = LC.step(old._activePrintJob, f.g["event"], old.clearRegionsAfterPrintFinishes)
        fresh = fresh_state(f, new._logger)
        return And(
            Iff(new._activePrintJob, act),
            Implies(cleared, And(eq(R.rl_len(regions_of(new)), 0), notified_once_with_current(f))),
            Implies(Not(cleared), And(R.same_list(regions_of(new), regions_of(old)), not_notified(f))),
            Implies(reset, per_print_clean(new.state, fresh)),
            Implies(Not(reset), per_print_same(new.state, old.state)),
            config_same(new.state, old.state),
            Iff(new.clearRegionsAfterPrintFinishes, old.clearRegionsAfterPrintFinishes),
            Iff(new.mayShrinkRegionsWhilePrinting, old.mayShrinkRegionsWhilePrinting),
            new.state is f.self.gcodeHandlers.state)
    c.ensures("C11.lifecycle-automaton", lifecycle, props=("C11", "C10", "C13", "C01", "C02", "C03", "C04", "C05", "C06", "C14", "C15"))


@contract("ExcludeRegionState.ExcludeRegionState.resetState")
def _(c):
    def pre(b):
        st = mk_state(b, enter="any", exit="any", position="some", lastRetraction="any", lastPosition="any", pending="opaque")
        return {"self": st, "args": {"clearExcludedRegions": b.bool("clearExcludedRegions")}}
    c.pre(pre)
    c.ensures("C10.per-print-state-equals-fresh", lambda f: per_print_clean(f.self, fresh_state(f, f.self._logger)),
              props=("C10",))
    def documented_initial_state(f):
        return initial_state_conditions(f.self)
    c.ensures("C10.documented-initial-state", documented_initial_state, props=("C10", "C01", "C02", "C03", "C04", "C05", "C11", "C14"))
    c.ensures("C10.config-and-regions-kept", lambda f: And(
        config_same(f.self, f.old.self),
        If(f.a.clearExcludedRegions, eq(R.rl_len(f.self.excludedRegions), 0),
           R.same_list(f.self.excludedRegions, f.old.self.excludedRegions))), props=("C10", "C11"))


def initial_state_conditions(st):
    """Base case of every per-step argument (and the meaning of 'a freshly initialised plugin'): exclusion enabled, no
    episode open, nothing owed or deferred, position unknown until homed (E at 0), millimetres, absolute coordinates,
    no offsets.  Stated explicitly -- the comparison with a fresh object alone would accept any default the
    constructor and resetState share."""
    pos = st.position
    conds = [st._exclusionEnabled, Not(st.excluding), is_none(st.excludeStartTime) if st.excludeStartTime is not None else True,
             eq(st.numExcludedCommands, 0), eq(st.numCommands, 0), st.lastRetraction is None, st.lastPosition is None,
             eq(st.feedRate, 0), eq(st.feedRateUnitMultiplier, 1)]
    pend = st.pendingCommands
    conds.append(len(pend) == 0 if hasattr(pend, "__len__") and not hasattr(pend, "view") else eq(pend.view().n, 0))
    for name in ("X_AXIS", "Y_AXIS", "Z_AXIS", "E_AXIS"):
        ax = getattr(pos, name)
        cur = ax.current
        if name == "E_AXIS":
            conds.append(And(Not(is_none(cur)), eq(val(cur), 0)) if cur is not None else False)
        else:
            conds.append(is_none(cur) if cur is not None else True)
        conds += [eq(ax.offset, 0), eq(ax.homeOffset, 0), ax.absoluteMode, eq(ax.unitMultiplier, 1)]
    return And(*conds)


# ---------------------------------------------------------------------------------------------
# handleScriptHook (C15)
@contract("__init__.ExcludeRegionPlugin.handleScriptHook")
def _(c):
    def pre(b):
        from contracts.motion import mk_motion_state, mk_printer
        st = mk_motion_state(b, lastRetraction="opaque", enter="opaque")
        p = mk_plugin(b, state=st)
        k = b.choose(4, "script")
        stype, sname = [("gcode", "afterPrintDone"), ("gcode", "beforePrintStarted"), ("sometype", "afterPrintDone"),
                        (b.string("scriptType"), b.string("scriptName"))][k]
        return {"self": p, "args": {"commInstance": b.comm(b.bool("streaming")), "scriptType": stype, "scriptName": sname},
                "ghost": {"P": mk_printer(b)}}
    c.pre(pre)

    def req(f):
        from contracts.motion import inv_type, inv_excl, inv_lastpos, inv_pos
        st, P = f.self.state, f.g["P"]
        return And(inv_type(st), inv_excl(st), inv_lastpos(st, P), inv_pos(st, P))
    c.requires("Inv", req)

    def post(f):
        from contracts.motion import exit_structure, at_tracked, z_order_ok, tracked_xyz
        from spec import refprinter as RP
        o, n = f.old.self, f.self
        applies = And(str_eq(f.a.scriptType, "gcode"), str_eq(f.a.scriptName, "afterPrintDone"), o._activePrintJob, o.state.excluding)
        if f.result is None:
            return And(Not(applies), f.unchanged())
        if not (isinstance(f.result, tuple) and len(f.result) == 2 and f.result[1] is None):
            return False
        cmds = f.result[0]
        P = f.g["P"]
        Q, log = RP.run(P, n.state.position, cmds, None, None)

        class _F(object):       # exit_structure reads the *state* frame
            pass
        fs = _F()
        fs.old = _F()
        fs.old.self = o.state
        fs.self = n.state
        fs.native = getattr(f, "native", False)
        return And(applies, Not(n.state.excluding), exit_structure(fs, RP.items_of(cmds)), at_tracked(Q, n.state),
                   eq(Q.e, val(n.state.position.E_AXIS.current)), z_order_ok(P, Q, log, tracked_xyz(n.state)[2]))
    c.ensures("C15.cleanup-exactly-when-episode-open", post, props=("C15", "C06", "C11", "C03"))


# ---------------------------------------------------------------------------------------------
# settings plumbing (C06 scripts / deferral modes, C11 clear-after-print, C12 may-shrink, C14 @-command actions)
@contract("__init__.ExcludeRegionPlugin._splitGcodeScript")
def _(c):
    def summary(f):
        from pyvc.values import Opaque
        f.interp.ctx.assumed.add("A2:_splitGcodeScript(text) is an opaque function of the configured text here; its behaviour "
                                 "(comments and blank lines removed, commands normalised) is checked bounded (bounded/settings)")
        r = Opaque("script split from the settings")
        r.split_of = f.a.gcodeString
        return r
    c.summary(summary)
    c.log_calls = True
    c.use_modular()


@contract("__init__.ExcludeRegionPlugin.loggingMode.setter")
def _(c):
    def summary(f):
        f.interp.ctx.assumed.add("A3:the loggingMode setter only reconfigures log handlers (not modelled) and stores the mode")
        f.interp.ctx.log_write(f.self, "_loggingMode")
        f.self.fields["_loggingMode"] = f.a.loggingMode
        return None
    c.summary(summary)
    c.use_modular()


GCODE_CFG = (("G4", "M204"), ("G4", "G4"), ("M117", "G4"))
ATCMD_CFG = (("ExcludeRegion", "ExcludeRegion"), ("ExcludeRegion", "Other"), ("Other", "ExcludeRegion"))
MODES = ("exclude", "first", "last", "merge")
ACTIONS = ("enable_exclusion", "disable_exclusion")


def one_of(b, name, options):
    """A symbolic string constrained to the given constants (natively: one of them, chosen from the model)."""
    v = b.string(name)
    if b.native:
        return v if v in options else options[len(v) % len(options)]
    b.assume(Or(*[str_eq(v, o) for o in options]))
    return v


@contract("__init__.ExcludeRegionPlugin._handleSettingsUpdated")
def _(c):
    """Every configuration field is taken from ITS OWN settings key; the deferral table maps each configured code to its
    own mode (last entry wins for a repeated code); the @-command table keeps every configured action, grouped by
    command in configuration order.  Bounded in the number of configured entries (0..2 codes, 0..3 actions incl. an
    interleaved A, B, A order) only."""
    def pre(b):
        p = mk_plugin(b, **state_fields(b))
        ng = b.choose(3, "configured extended codes")
        gk = GCODE_CFG[b.choose(len(GCODE_CFG), "codes")] if ng == 2 else GCODE_CFG[0]
        gcodes = [b.dict({"gcode": gk[i], "mode": one_of(b, "cfg.mode%d" % i, MODES), "description": b.string("gdesc%d" % i)})
                  for i in range(ng)]
        na = b.choose(4, "configured @-command actions")
        ak = ATCMD_CFG[b.choose(len(ATCMD_CFG), "commands")] if na == 2 else \
            (("ExcludeRegion", "Other", "ExcludeRegion") if na == 3 else ATCMD_CFG[0])
        acts = [b.dict({"command": ak[i], "parameterPattern": [None, "^\\s*(enable|on)"][b.choose(2, "pattern %d" % i)],
                        "action": one_of(b, "cfg.action%d" % i, ACTIONS), "description": b.string("adesc%d" % i)})
                for i in range(na)]
        vals = {"clearRegionsAfterPrintFinishes": b.bool("cfg.clearRegionsAfterPrintFinishes"),
                "mayShrinkRegionsWhilePrinting": b.bool("cfg.mayShrinkRegionsWhilePrinting"),
                "enteringExcludedRegionGcode": b.optstr("cfg.enteringExcludedRegionGcode"),
                "exitingExcludedRegionGcode": b.optstr("cfg.exitingExcludedRegionGcode"),
                "extendedExcludeGcodes": b.list(gcodes), "atCommandActions": b.list(acts),
                "loggingMode": "octoprint" if b.native else one_of(b, "cfg.loggingMode", ("octoprint", "dedicated", "both"))}
        p._settings = b.settings(vals)
        if b.native:
            p.gcodeHandlers.gcodeParser = b.new("GcodeParser")      # the real splitter runs natively
        g = {"cfg": vals, "gcodes": gcodes, "acts": acts,
             "global": b.settings({"feature.g90InfluencesExtruder": b.bool("cfg.g90InfluencesExtruder")}, is_global=True)}
        g["g90"] = g["global"].get(["feature", "g90InfluencesExtruder"]) if b.native else g["global"].values["feature.g90InfluencesExtruder"]
        b.spy(g, p, "_splitGcodeScript")
        return {"self": p, "args": {}, "ghost": g}
    c.pre(pre)

    def scalars(f):
        cfg, p = f.g["cfg"], f.self
        return And(Iff(p.clearRegionsAfterPrintFinishes, cfg["clearRegionsAfterPrintFinishes"]),
                   Iff(p.mayShrinkRegionsWhilePrinting, cfg["mayShrinkRegionsWhilePrinting"]),
                   Iff(p.state.g90InfluencesExtruder, f.g["g90"]),
                   str_eq(p._loggingMode, cfg["loggingMode"]))
    c.ensures("C11.each-flag-from-its-own-settings-key", scalars, props=("C11", "C12", "C02", "C04"))

    def scripts(f):
        from contracts.handlers import calls
        cs = calls(f, "_splitGcodeScript")
        if len(cs) != 2:
            return False
        cfg, st = f.g["cfg"], f.self.state

        def same_text(a, b_):
            if getattr(f, "native", False):
                return a == b_
            if a is b_:
                return True
            if hasattr(a, "isnone") and hasattr(b_, "isnone"):      # the same optional text (syntactically the same terms)
                return a.isnone.eq(b_.isnone) and a.val.eq(b_.val)
            return False
        ok_in = same_text(cs[0][1]["gcodeString"], cfg["enteringExcludedRegionGcode"]) and \
            same_text(cs[1][1]["gcodeString"], cfg["exitingExcludedRegionGcode"])
        if getattr(f, "native", False):
            return ok_in and st.enteringExcludedRegionGcode == cs[0][2] and st.exitingExcludedRegionGcode == cs[1][2]
        return ok_in and st.enteringExcludedRegionGcode is cs[0][2] and st.exitingExcludedRegionGcode is cs[1][2]
    c.ensures("C06.scripts-split-from-their-own-settings-keys", scripts, props=("C06", "C15"))

    def tables(f):
        st = f.self.state
        gtab, atab = st.extendedExcludeGcodes, st.atCommandActions
        gd = gtab if isinstance(gtab, dict) else gtab.d
        ad = atab if isinstance(atab, dict) else atab.d

        def fld(d, k):
            return d[k] if isinstance(d, dict) else d.d[k]
        gcodes, acts = f.g["gcodes"], f.g["acts"]
        want_g = {}
        for e in gcodes:
            want_g[fld(e, "gcode")] = e
        if set(gd.keys()) != set(want_g.keys()):
            return False
        conds = []
        for k, e in want_g.items():
            got = gd[k]
            conds += [str_eq(got.gcode, k), str_eq(got.mode, fld(e, "mode")), str_eq(got.description, fld(e, "description"))]
        want_a = {}
        for e in acts:
            want_a.setdefault(fld(e, "command"), []).append(e)
        if set(ad.keys()) != set(want_a.keys()):
            return False
        for k, es in want_a.items():
            got = ad[k]
            got = list(got.items) if hasattr(got, "items") and not isinstance(got, dict) else list(got)
            if len(got) != len(es):
                return False
            for ga, e in zip(got, es):
                pat = fld(e, "parameterPattern")
                conds += [str_eq(ga.command, k), str_eq(ga.action, fld(e, "action")), str_eq(ga.description, fld(e, "description")),
                          (ga.parameterPattern is None) if pat is None else
                          (ga.parameterPattern is not None and ga.parameterPattern.pattern == pat)]
        return And(*conds) if conds else True
    c.ensures("C06.deferral-and-action-tables-mirror-the-configuration", tables, props=("C06", "C14"))


# ---------------------------------------------------------------------------------------------
# initialize(): the base case of the lifecycle (C11) and of "a freshly initialised plugin" (C10)
@contract("__init__.ExcludeRegionPlugin.initialize")
def _(c):
    """After initialize(): no print is active, the state is the documented initial state with no regions, the handlers
    work on that very state, the settings have been applied (the callee's contract), and listeners got exactly one
    notification carrying the empty list."""
    def pre(b):
        vals = {"clearRegionsAfterPrintFinishes": b.bool("cfg.clearRegionsAfterPrintFinishes"),
                "mayShrinkRegionsWhilePrinting": b.bool("cfg.mayShrinkRegionsWhilePrinting"),
                "enteringExcludedRegionGcode": b.optstr("cfg.enteringExcludedRegionGcode"),
                "exitingExcludedRegionGcode": b.optstr("cfg.exitingExcludedRegionGcode"),
                "extendedExcludeGcodes": b.list([]), "atCommandActions": b.list([]),
                "loggingMode": "octoprint"}
        p = b.new("ExcludeRegionPlugin", _logger=b.logger(), _activePrintJob=None, _loggingMode=None, _pluginLoggingHandler=None,
                  clearRegionsAfterPrintFinishes=None, mayShrinkRegionsWhilePrinting=None, state=None, gcodeHandlers=None,
                  _plugin_manager=b.plugin_manager(), _identifier="excluderegion", _plugin_version="0.0", _settings=b.settings(vals))
        g = {"cfg": vals, "global": b.settings({"feature.g90InfluencesExtruder": b.bool("cfg.g90InfluencesExtruder")}, is_global=True)}
        return {"self": p, "args": {}, "ghost": g}
    c.pre(pre)
    c.inline_callees = {"__init__.ExcludeRegionPlugin._handleSettingsUpdated", "__init__.ExcludeRegionPlugin._notifyExcludedRegionsChanged"}

    def post(f):
        p = f.self
        st = p.state
        if st is None or p.gcodeHandlers is None:
            return False
        regs = st.excludedRegions
        n_regs = len(regs) if isinstance(regs, list) else (len(regs.items) if hasattr(regs, "items") else R.rl_len(regs))
        log = messages(p)
        return And(p._activePrintJob is False if isinstance(p._activePrintJob, bool) else Not(p._activePrintJob),
                   initial_state_conditions(st), eq(n_regs, 0), p.gcodeHandlers.state is st,
                   len(log) == 1,
                   Iff(p.clearRegionsAfterPrintFinishes, f.g["cfg"]["clearRegionsAfterPrintFinishes"]),
                   Iff(p.mayShrinkRegionsWhilePrinting, f.g["cfg"]["mayShrinkRegionsWhilePrinting"]))
    c.ensures("C11.initialised-idle-with-the-documented-initial-state", post, props=("C11", "C10", "C13"))

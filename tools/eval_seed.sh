#!/bin/bash
# tools/eval_seed.sh <seed-id> <prop> [<prop> ...]
# Confirms a seeded change (from /tmp/seed_<id> or /verif/seeded/<id>) in a scratch worktree and runs the given checks
# against it in /repo (applied and undone straight afterwards).
set -u
ID=$1; shift
SRC=/tmp/seed_$ID
DST=/verif/seeded/$ID
mkdir -p $DST
[ -d $SRC ] && cp -f $SRC/patch.diff $SRC/demo.py $DST/ 2>/dev/null; [ -f $SRC/notes.txt ] && cp -f $SRC/notes.txt $DST/agent_notes.txt
WT=/tmp/ev_$ID
rm -rf $WT; git -C /repo worktree prune; git -C /repo worktree add --detach $WT HEAD -q || exit 9
( cd $WT && /venv/bin/python $DST/demo.py >/tmp/ev_${ID}_demo_clean.txt 2>&1 ); CLEAN=$?
git -C $WT apply $DST/patch.diff || { echo "PATCH DOES NOT APPLY"; git -C /repo worktree remove --force $WT; exit 8; }
BASE=$(python3 /verif/tools/baseline_check.py $WT | head -1)
( cd $WT && /venv/bin/python $DST/demo.py >/tmp/ev_${ID}_demo_mut.txt 2>&1 ); MUT=$?
git -C /repo worktree remove --force $WT
echo "seed=$ID demo_clean_exit=$CLEAN demo_mutated_exit=$MUT baseline: $BASE"
git -C /repo apply $DST/patch.diff || { echo "cannot apply to /repo"; exit 7; }
RES=""
for P in "$@"; do
  OUT=$(cd /verif && ./check $P 2>&1 | grep -v "^KNOWN"); EC=$?
  V=$(echo "$OUT" | grep -c "^VIOLATION")
  LAST=$(echo "$OUT" | grep "^$P:" | tail -1)
  echo "  check $P: violations=$V :: $LAST"
  echo "$OUT" | grep "^VIOLATION\|^UNDECIDED\|^CHECKER" | cut -c1-260 | head -6 | sed 's/^/     /'
  RES="$RES $P:$V"
done
git -C /repo checkout -- .
echo "  summary:$RES"

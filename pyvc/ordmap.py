"""Insertion-ordered map model (collections.OrderedDict) -- see DESIGN.md 3.3.  Filled in with C06."""
from .values import Model, Unsupported


class ArgMap(Model):
    clsname = "dict"


class OrdMap(Model):
    clsname = "OrderedDict"

    def __init__(self):
        self.items = []   # concrete-shape placeholder

    @classmethod
    def empty(cls, ctx):
        return cls()

    def call_method(self, interp, name, args, kwargs, node):
        if name == "__bool__":
            return len(self.items) > 0
        raise Unsupported("OrderedDict.%s" % name, node)

    def copy(self, memo):
        c = OrdMap()
        c.items = list(self.items)
        return c

    def struct_eq(self, other):
        return self.items == other.items

    def read(self, key):
        return self

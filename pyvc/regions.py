"""Symbolic model of `ExcludeRegionState.excludedRegions`: a Python list of region objects of
unbounded symbolic length.  View: length n and per-index arrays (kind, id, four reals)."""
import z3

from . import ops
from .values import Model, Obj, SymSeq, Unsupported, PathDead, next_oid, as_const_bool

IdSort = z3.StringSort()


class Arrays(object):
    """Immutable value: the abstract view of the list."""

    def __init__(self, n, kind, rid, p):
        self.n = n          # Int term
        self.kind = kind    # Array Int Bool  (True = rectangle)
        self.rid = rid      # Array Int String
        self.p = p          # 4 x Array Int Real


def fresh_arrays(ctx, name):
    n = ctx.int(name + ".len")
    kind = z3.Array(ctx.fresh_name(name + ".isRect"), z3.IntSort(), z3.BoolSort())
    rid = z3.Array(ctx.fresh_name(name + ".id"), z3.IntSort(), IdSort)
    p = [z3.Array(ctx.fresh_name("%s.p%d" % (name, i)), z3.IntSort(), z3.RealSort()) for i in range(4)]
    return Arrays(n, kind, rid, p)


class RegionElem(Model):
    """Element k of a region list view (class not yet decided)."""

    clsname = "Region"

    def __init__(self, arrays, k, program):
        self.arrays = arrays
        self.k = k
        self.program = program
        self.resolved = None
        self.oid = next_oid()

    # ---- spec-side accessors (used by contract clauses)
    @property
    def is_rect_term(self):
        return z3.Select(self.arrays.kind, self.k)

    @property
    def id(self):
        return z3.Select(self.arrays.rid, self.k)

    def _p(self, i):
        return z3.Select(self.arrays.p[i], self.k)

    x1 = property(lambda s: s._p(0))
    y1 = property(lambda s: s._p(1))
    x2 = property(lambda s: s._p(2))
    y2 = property(lambda s: s._p(3))
    cx = property(lambda s: s._p(0))
    cy = property(lambda s: s._p(1))
    r = property(lambda s: s._p(2))

    # ---- executor side
    def resolve(self, interp):
        if self.resolved is None:
            if interp.ctx.branch(self.is_rect_term):
                o = Obj(self.program.find_class("RectangularRegion"),
                        {"x1": self.x1, "y1": self.y1, "x2": self.x2, "y2": self.y2, "id": self.id})
            else:
                o = Obj(self.program.find_class("CircularRegion"),
                        {"cx": self.cx, "cy": self.cy, "r": self.r, "id": self.id})
            o.list_elem = self
            self.resolved = o
        return self.resolved

    def get_attr(self, interp, name, node):
        if name == "id":
            return self.id
        return interp.get_attr(self.resolve(interp), name, node)

    def call_method(self, interp, name, args, kwargs, node):
        if name == "toDict":
            interp.ctx.assumed.add("A3:CommonMixin.toDict is an injective view of a region's class and fields")
            return RegionDict(self)
        return interp.call_method(self.resolve(interp), name, args, kwargs, node)

    def struct_eq(self, other):
        return elem_eq(self, other)


class RegionDict(Model):
    """region.toDict() of a list element: an opaque injective view of the element."""

    clsname = "dict"

    def __init__(self, elem):
        self.elem = elem

    def struct_eq(self, other):
        return elem_eq(self.elem, other.elem)


def elem_view(v):
    """(is_rect, id, p0..p3) of a region value (RegionElem or concrete Obj)."""
    if isinstance(v, RegionElem):
        return (v.is_rect_term, v.id, [v._p(i) for i in range(4)])
    if isinstance(v, Obj) and v.clsname == "RectangularRegion":
        f = v.fields
        return (True, f["id"], [f["x1"], f["y1"], f["x2"], f["y2"]])
    if isinstance(v, Obj) and v.clsname == "CircularRegion":
        f = v.fields
        return (False, f["id"], [f["cx"], f["cy"], f["r"], 0])   # 4th slot of a circle is canonically 0
    raise Unsupported("not a region: %r" % (v,))


def elem_eq(a, b):
    ka, ia, pa = elem_view(a)
    kb, ib, pb = elem_view(b)
    conds = [ops.Iff(ka, kb), _ideq(ia, ib)]
    for i in range(4):
        conds.append(ops.eq(pa[i], pb[i]))
    return ops.And(*conds)


def _ideq(a, b):
    if a is None or b is None:
        return a is None and b is None
    return ops.lift(a) == ops.lift(b)


class RegionList(Model):
    clsname = "list"

    def __init__(self, arrays, program):
        self.arrays = arrays
        self.program = program
        self.oid = next_oid()
        self.fresh = False

    @classmethod
    def symbolic(cls, ctx, program, name="regions"):
        a = fresh_arrays(ctx, name)
        ctx.assume(a.n >= 0, definitional=True)
        ctx.symbols[name] = _ListModelReader(a)
        return cls(a, program)

    @classmethod
    def empty(cls, ctx, program):
        a = fresh_arrays(ctx, "emptyregions")
        return cls(Arrays(z3.IntVal(0), a.kind, a.rid, a.p), program)

    # spec-side view
    @property
    def n(self):
        return self.arrays.n

    def elem(self, k):
        return RegionElem(self.arrays, k, self.program)

    def view(self):
        a = self.arrays
        return SymSeq(a.n, lambda k: RegionElem(a, k, self.program), name="regions")

    def havoc(self, ctx, tag):
        a = fresh_arrays(ctx, "regions'" + tag)
        ctx.assume(a.n >= 0, definitional=True)
        self.arrays = a

    def copy(self, memo=None):
        c = RegionList(self.arrays, self.program)
        c.fresh = True
        return c

    def children(self):
        return []

    def read(self, key):
        return self

    def struct_eq(self, other):
        return seq_eq(self.arrays, other.arrays)

    def call_method(self, interp, name, args, kwargs, node):
        ctx = interp.ctx
        a = self.arrays
        if name == "__iter__":
            return self.view()
        if name == "__len__":
            return a.n
        if name == "__bool__":
            return a.n > 0
        if name == "__getitem__":
            k = _idx(args[0])
            fn = ctx.fn_stack[-1] if ctx.fn_stack else "?"
            ctx.oblige("%s/index-in-range@L%s" % (fn, getattr(node, "lineno", "?")),
                       z3.And(k >= 0, k < a.n), {"implicit": "IndexError"}, kind="implicit")
            return RegionElem(a, k, self.program)
        if name == "append":
            kind, rid, p = elem_view(interp.deref(args[0]) if hasattr(interp, "deref") else args[0])
            ctx.log_write(self, "[]")
            np_ = []
            for i in range(4):
                np_.append(z3.Store(a.p[i], a.n, ops.lift(p[i])) if p[i] is not None else a.p[i])
            self.arrays = Arrays(a.n + 1, z3.Store(a.kind, a.n, ops.lift(kind)), z3.Store(a.rid, a.n, ops.lift(rid)), np_)
            return None
        if name == "__setitem__":
            k = _idx(args[0])
            fn = ctx.fn_stack[-1] if ctx.fn_stack else "?"
            ctx.oblige("%s/index-in-range@L%s" % (fn, getattr(node, "lineno", "?")),
                       z3.And(k >= 0, k < a.n), {"implicit": "IndexError"}, kind="implicit")
            kind, rid, p = elem_view(interp.deref(args[1]) if hasattr(interp, "deref") else args[1])
            ctx.log_write(self, "[]")
            np_ = []
            for i in range(4):
                np_.append(z3.Store(a.p[i], k, ops.lift(p[i])) if p[i] is not None else a.p[i])
            self.arrays = Arrays(a.n, z3.Store(a.kind, k, ops.lift(kind)), z3.Store(a.rid, k, ops.lift(rid)), np_)
            return None
        if name == "__delitem__":
            k = _idx(args[0])
            fn = ctx.fn_stack[-1] if ctx.fn_stack else "?"
            ctx.oblige("%s/index-in-range@L%s" % (fn, getattr(node, "lineno", "?")),
                       z3.And(k >= 0, k < a.n), {"implicit": "IndexError"}, kind="implicit")
            ctx.log_write(self, "[]")
            nw = fresh_arrays(ctx, "regions.del")
            j = z3.Int("j!del%d" % next_oid())

            def shifted(new, old):
                return z3.ForAll([j], z3.Select(new, j) == z3.If(j < k, z3.Select(old, j), z3.Select(old, j + 1)))
            ax = [shifted(nw.kind, a.kind), shifted(nw.rid, a.rid)] + [shifted(nw.p[i], a.p[i]) for i in range(4)]
            ctx.assumed.add("A2:del list[k] shifts the tail left by one (list semantics)")
            ctx.assume(z3.And(*ax), definitional=True)
            self.arrays = Arrays(a.n - 1, nw.kind, nw.rid, nw.p)
            return None
        raise Unsupported("list.%s on region list" % name, node)


def _idx(k):
    if isinstance(k, int):
        return z3.IntVal(k)
    return k


def seq_eq(a, b):
    """Two list views denote the same list (same length, same elements in order)."""
    if a is b:
        return True
    k = z3.Int("k!seq%d" % next_oid())
    ea, eb = RegionElem(a, k, None), RegionElem(b, k, None)
    return z3.And(a.n == b.n, z3.ForAll([k], z3.Implies(z3.And(k >= 0, k < a.n), region_same(ea, eb))))


def region_same(ea, eb):
    """Same region value: same class, same id, same parameters (4th slot only for rectangles)."""
    return z3.And(ea.is_rect_term == eb.is_rect_term, ea.id == eb.id, ea._p(0) == eb._p(0), ea._p(1) == eb._p(1),
                  ea._p(2) == eb._p(2), ea._p(3) == eb._p(3))


class _ListModelReader(object):
    """Extracts a concrete region list from a solver model (for native replay)."""

    def __init__(self, arrays):
        self.arrays = arrays

    def model_value(self, m):
        from .verify import model_value
        a = self.arrays
        n = m.eval(a.n, model_completion=True).as_long()
        out = []
        for i in range(min(n, 8)):
            ii = z3.IntVal(i)
            is_rect = z3.is_true(m.eval(z3.Select(a.kind, ii), model_completion=True))
            rid = model_value(m.eval(z3.Select(a.rid, ii), model_completion=True))
            ps = [model_value(m.eval(z3.Select(a.p[j], ii), model_completion=True)) for j in range(4)]
            out.append({"rect": is_rect, "id": rid, "p": ps})
        return {"regionlist": out, "len": n}


def from_items(items, program=None):
    """View of a concrete python list of region objects."""
    n = len(items)
    oid = next_oid()
    kind = z3.K(z3.IntSort(), z3.BoolVal(False))
    rid = z3.K(z3.IntSort(), z3.StringVal(""))
    p = [z3.K(z3.IntSort(), z3.RealVal(0)) for _ in range(4)]
    for i, it in enumerate(items):
        k, r, ps = elem_view(it)
        kind = z3.Store(kind, i, ops.lift(k))
        rid = z3.Store(rid, i, ops.lift(r))
        p = [z3.Store(p[j], i, ops.lift(ps[j])) for j in range(4)]
    return RegionList(Arrays(z3.IntVal(n), kind, rid, p), program)

from props.common import *
ID = "C01"
LEVEL = "proof"
TAGS = ("C01",)
CONTRACT_MODULES = ALL_CONTRACTS
FUNCTIONS = MOTION_FUNCS + REGION_FUNCS + [S + "disableExclusion"] + HANDLER_FUNCS + [H + "handleAtCommand"] + AXIS_FUNCS[1:4] + [S + "resetState"] + [P + "on_event"]
SELFCHECK = [S + "processLinearMoves", S + "isAnyPointExcluded", H + "_handle_G0", H + "_handle_G28"]
ASSUMPTIONS = ["A1", "A2", "A3", "A4", "A5", "INDUCTION"]
EXTRA_ASSUMPTIONS = ["region membership is the opaque spec predicate excluded(regions, x, y) := exists k. contains(region_k, x, y), "
                     "linked to the code by isPointExcluded's proved contract",
                     "handlers see commands through the abstract (letter, value) item sequence of the parser (checked against an RS274 reader in C19)",
                     "known findings printed by the check delimit the proved domain (e.g. G2/G3 in G91, G28 inside an episode)"]
EXPLANATION = ("Per handler call, for an arbitrary region list, an arbitrary state satisfying Inv and an arbitrary ghost printer: "
               "a forwarded move implies its destination(s) are not excluded and no episode is open; if a destination is excluded, "
               "or an episode stays open, the commands returned leave the printer's X/Y/Z unchanged and do not advance filament "
               "(only retraction pairs / G10 / the enter script are returned); the tracked position follows the file (tracking "
               "conformance) so 'destination' means the physical one. " + STREAM_NOTE)
BREAKERS = [
    {"module": "ExcludeRegionState", "old": "                if (region.containsPoint(x, y)):", "new": "                if (region.containsPoint(y, x)):",
     "desc": "isPointExcluded tests (y, x)", "functions": [S + "isPointExcluded"]},
    {"module": "ExcludeRegionState", "old": "            if (not exclude and self.isPointExcluded(x, y)):", "new": "            if (index == 0 and self.isPointExcluded(x, y)):",
     "desc": "only the first arc sample is tested", "functions": [S + "isAnyPointExcluded"]},
    {"module": "ExcludeRegionState", "old": "        if (finalZ is not None):\n            self.position.Z_AXIS.setLogicalPosition(finalZ)\n            isMove = True",
     "new": "        if (finalZ is not None):\n            isMove = True", "desc": "Z word not tracked", "functions": [S + "processLinearMoves"]},
    {"module": "ExcludeRegionState", "old": "        elif (self.excluding):\n            # A retraction was encountered that would have normally been combined",
     "new": "        elif (False):\n            # A retraction was encountered that would have normally been combined",
     "desc": "second retraction inside a region is forwarded verbatim (original E-only command)", "functions": [S + "processLinearMoves"]},
]

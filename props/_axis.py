ID = "_axis"
LEVEL = "proof"
TAGS = ("C08", "C03", "C01", "C04", "C07", "C09", "C10", "C20")
CONTRACT_MODULES = ["contracts.axis"]
FUNCTIONS = ["AxisPosition.AxisPosition." + m for m in (
    "__init__", "logicalToNative", "nativeToLogical", "setLogicalPosition", "setLogicalOffsetPosition",
    "setHome", "setUnitMultiplier", "setAbsoluteMode")]

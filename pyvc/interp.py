"""Symbolic interpreter for the Python subset of DESIGN.md 2.2, working on the repository's AST."""
import ast
from fractions import Fraction

import z3

from . import ops
from .values import (OptObj, Lazy, Obj, Opt, SStr, Hole, PyList, PyDict, SymSeq, BoundMethod, ClassRef, ExtClass,
                     ExtModule, Model, Unsupported, PathDead, NotPure, PyExc, Splice,
                     is_number, is_bool, is_symstr, is_strlike, to_real, conc_number, mkstr,
                     as_const_bool)


class _Return(Exception):
    def __init__(self, value):
        self.value = value


class _Break(Exception):
    pass


class _Continue(Exception):
    pass


class PathEnd(Exception):
    """Path finished early (arbitrary-iteration path of the loop rule)."""


class Undefined(object):
    def __repr__(self):
        return "<undefined>"


UNDEF = Undefined()


def fn_names_of_contract(spec):
    return set(spec.havoc) | set(spec.scratch)


class View(object):
    """Attribute view over a dict (locals / args) for contract lambdas."""

    def __init__(self, d, **extra):
        object.__setattr__(self, "_a", extra.pop("_alias", None) or {})
        object.__setattr__(self, "_d", d)
        object.__setattr__(self, "_x", extra)

    def __getattr__(self, name):
        x = object.__getattribute__(self, "_x")
        if name in x:
            return x[name]
        d = object.__getattribute__(self, "_d")
        name = object.__getattribute__(self, "_a").get(name, name)
        if name in d:
            return d[name]
        raise Unsupported("contract refers to unknown local/argument '%s'" % name)

    def __setattr__(self, name, value):
        self._d[self._a.get(name, name)] = value

    def has(self, name):
        return self._a.get(name, name) in self._d or name in self._x


class Env(object):
    def __init__(self, finfo, module, locals_=None):
        self.finfo = finfo
        self.module = module
        self.locals = dict(locals_ or {})
        self.loop_ordinal = 0


EXT_EXC = ("ValueError", "AssertionError", "AttributeError", "TypeError", "ZeroDivisionError",
           "KeyError", "IndexError", "Exception")


class Interp(object):
    def __init__(self, program, ctx, registry, externals=None, inline_all=False, top=None):
        self.program = program
        self.ctx = ctx
        self.registry = registry
        self.externals = externals  # object providing external stubs (see stubs.py)
        self.inline_all = inline_all
        self.top = top              # qualname under verification (never used through its contract)
        self.depth = 0
        self.loop_ordinals = {}
        self.call_edges = []
        self.force_inline = set()
        self.frames = []

    # ------------------------------------------------------------------ globals
    def module_globals(self, mod):
        if mod.globals is not None:
            return mod.globals
        g = {}
        mod.globals = g
        env = Env(None, mod, g)
        for st in mod.tree.body:
            if isinstance(st, (ast.Import, ast.ImportFrom)):
                self.exec_import(st, env, g)
            elif isinstance(st, ast.ClassDef):
                g[st.name] = ClassRef(mod.classes[st.name])
            elif isinstance(st, ast.FunctionDef):
                g[st.name] = BoundMethod(None, mod.functions[st.name])
            elif isinstance(st, ast.Assign):
                try:
                    v = self.eval(st.value, env_for_globals(env, g))
                except (Unsupported, NotPure, PyExc):
                    v = UNDEF
                for t in st.targets:
                    if isinstance(t, ast.Name):
                        g[t.id] = v
            # docstrings / other statements: dropped
        return g

    def exec_import(self, st, env, target):
        if isinstance(st, ast.Import):
            for a in st.names:
                name = a.asname or a.name.split(".")[0]
                target[name] = self.externals.module(a.name.split(".")[0] if not a.asname else a.name)
            return
        modname = st.module or ""
        if modname == "__future__":
            return
        short = None
        if st.level > 0:
            short = modname
        elif modname.startswith("octoprint_excluderegion."):
            short = modname.split(".", 1)[1]
        if short is not None and short in self.program.modules:
            g = self.module_globals(self.program.modules[short])
            for a in st.names:
                if a.name not in g:
                    raise Unsupported("import of unknown name %s from %s" % (a.name, short), st)
                target[a.asname or a.name] = g[a.name]
            return
        for a in st.names:
            target[a.asname or a.name] = self.externals.imported(modname, a.name)

    # ------------------------------------------------------------------ calling
    def call_function(self, finfo, args, kwargs, node=None):
        """Execute the body of a repository function (inlined)."""
        if finfo.is_generator:
            raise Unsupported("generator %s can only be used through a contract" % finfo.qualname, node)
        ctx = self.ctx
        if self.depth > 40:
            raise Unsupported("call depth", node)
        env = Env(finfo, finfo.module)
        self.bind_params(finfo, env, args, kwargs, node)
        ctx.executed.add(finfo.qualname)
        ctx.fn_stack.append(finfo.qualname)
        self.depth += 1
        pushed = False
        con = self.registry.get(finfo.qualname) if self.registry is not None else None
        if con is not None and con.loops and self.depth > 1:
            from .verify import Frame
            fr = Frame(env.locals.get("self"), env.locals, ctx, self)
            fr.g = ctx.ghost
            fr.snapshot()
            self.frames.append(fr)
            pushed = True
        try:
            try:
                self.exec_block(finfo.node.body, env)
            except _Return as r:
                return r.value
            return None
        finally:
            self.depth -= 1
            ctx.fn_stack.pop()
            if pushed:
                self.frames.pop()

    def bind_params(self, finfo, env, args, kwargs, node):
        a = finfo.node.args
        names = [p.arg for p in a.args]
        defaults = a.defaults
        ndef = len(defaults)
        args = list(args)
        kwargs = dict(kwargs)
        genv = Env(None, finfo.module, self.module_globals(finfo.module))
        for i, n in enumerate(names):
            if i < len(args):
                env.locals[n] = args[i]
            elif n in kwargs:
                env.locals[n] = kwargs.pop(n)
            else:
                di = i - (len(names) - ndef)
                if di < 0:
                    raise PyExc("TypeError", ("missing argument %s" % n,))
                env.locals[n] = self.eval(defaults[di], genv)
        rest = args[len(names):]
        if a.vararg is not None:
            if len(rest) == 1 and isinstance(rest[0], _StarSeq):
                env.locals[a.vararg.arg] = rest[0].seq
            else:
                env.locals[a.vararg.arg] = tuple(rest)
        elif rest:
            raise PyExc("TypeError", ("too many positional arguments",))
        for i, p in enumerate(a.kwonlyargs):
            if p.arg in kwargs:
                env.locals[p.arg] = kwargs.pop(p.arg)
            else:
                env.locals[p.arg] = self.eval(a.kw_defaults[i], genv)
        if a.kwarg is not None:
            env.locals[a.kwarg.arg] = PyDict(kwargs)
        elif kwargs:
            raise PyExc("TypeError", ("unexpected keyword arguments %s" % sorted(kwargs),))

    def deref(self, v):
        if isinstance(v, Model) and hasattr(v, "resolve"):
            return v.resolve(self)
        return v

    def find_method(self, cinfo, name):
        for c in cinfo.mro(self.program):
            if name in c.methods:
                return c.methods[name]
        return None

    def find_prop(self, cinfo, name, setter=False):
        for c in cinfo.mro(self.program):
            tab = c.prop_set if setter else c.prop_get
            if name in tab:
                return tab[name]
        return None

    def invoke(self, finfo, self_obj, args, kwargs, node=None):
        """Call a repository function: through its contract when modular, else inlined."""
        con = self.registry.get(finfo.qualname) if self.registry is not None else None
        full_args = list(args)
        if finfo.kind != "static" and finfo.cls is not None:
            full_args = [self_obj] + full_args
        caller = self.ctx.fn_stack[-1] if self.ctx.fn_stack else None
        use_contract = (con is not None and con.modular and (not self.inline_all or con.force_modular)
                        and finfo.qualname != self.top and finfo.qualname not in self.force_inline)
        if use_contract:
            self.call_edges.append((caller, finfo.qualname, "contract"))
            from .verify import apply_contract
            return apply_contract(self, con, finfo, full_args, kwargs, node)
        self.call_edges.append((caller, finfo.qualname, "inline"))
        return self.call_function(finfo, full_args, kwargs, node)

    def construct(self, cinfo, args, kwargs, node=None):
        obj = Obj(cinfo)
        obj.fresh = True
        init = self.find_method(cinfo, "__init__")
        if init is not None:
            self.invoke(init, obj, args, kwargs, node)
        elif args or kwargs:
            raise PyExc("TypeError", ("object() takes no arguments",))
        return obj

    def call_value(self, fn, args, kwargs, node=None):
        if isinstance(fn, BoundMethod):
            return self.invoke(fn.finfo, fn.obj, args, kwargs, node)
        if isinstance(fn, ClassRef):
            return self.construct(fn.cinfo, args, kwargs, node)
        if isinstance(fn, _Builtin):
            return fn.fn(self, args, kwargs, node)
        if isinstance(fn, _ModelMethod):
            return fn.obj.call_method(self, fn.name, args, kwargs, node)
        if isinstance(fn, ExtClass):
            return self.externals.construct(self, fn, args, kwargs, node)
        raise Unsupported("call of %r" % (fn,), node)

    # ------------------------------------------------------------------ statements
    def exec_block(self, stmts, env):
        for st in stmts:
            self.exec_stmt(st, env)

    def exec_stmt(self, st, env):
        m = getattr(self, "st_" + st.__class__.__name__, None)
        if m is None:
            raise Unsupported("statement %s" % st.__class__.__name__, st)
        try:
            return m(st, env)
        except Unsupported as u:
            if u.node is None:
                u.node = st
            if u.where is None and env.finfo is not None:
                u.where = "%s:%s" % (env.module.path, getattr(u.node, "lineno", "?"))
            raise
        except PyExc as e:
            if e.where is None and env.finfo is not None:
                e.where = "%s:%s" % (env.finfo.qualname, getattr(st, "lineno", "?"))
            raise

    def st_Expr(self, st, env):
        if isinstance(st.value, ast.Constant):
            return  # docstring
        self.eval(st.value, env)

    def st_Pass(self, st, env):
        pass

    def st_Global(self, st, env):
        raise Unsupported("global", st)

    def st_Import(self, st, env):
        self.exec_import(st, env, env.locals)

    def st_ImportFrom(self, st, env):
        self.exec_import(st, env, env.locals)

    def st_Return(self, st, env):
        raise _Return(self.eval(st.value, env) if st.value is not None else None)

    def st_Break(self, st, env):
        raise _Break()

    def st_Continue(self, st, env):
        raise _Continue()

    def st_Assign(self, st, env):
        v = self.eval(st.value, env)
        for t in st.targets:
            self.assign(t, v, env)

    def st_AugAssign(self, st, env):
        # evaluate target once (attribute base / subscript base evaluated once)
        t = st.target
        if isinstance(t, ast.Name):
            cur = self.load_name(t.id, env, t)
            new = self.aug(st.op, cur, self.eval(st.value, env), st)
            if isinstance(cur, PyList) and isinstance(st.op, ast.Add):
                return  # in-place list extension already done
            env.locals[t.id] = new
        elif isinstance(t, ast.Attribute):
            base = self.eval(t.value, env)
            cur = self.get_attr(base, t.attr, t)
            new = self.aug(st.op, cur, self.eval(st.value, env), st)
            if isinstance(cur, PyList) and isinstance(st.op, ast.Add):
                return
            self.set_attr(base, t.attr, new, t)
        elif isinstance(t, ast.Subscript):
            base = self.eval(t.value, env)
            idx = self.eval(t.slice, env)
            cur = self.subscript(base, idx, t)
            new = self.aug(st.op, cur, self.eval(st.value, env), st)
            self.store_subscript(base, idx, new, t)
        else:
            raise Unsupported("augassign target", st)

    def aug(self, op, cur, val, node):
        if isinstance(cur, Model) and hasattr(cur, "iadd") and isinstance(op, ast.Add):
            return cur.iadd(self, val, node)
        if isinstance(cur, PyList) and isinstance(op, ast.Add):
            self.list_extend(cur, val, node)
            return cur
        return self.binop(op, cur, val, node)

    def st_Delete(self, st, env):
        for t in st.targets:
            if isinstance(t, ast.Subscript):
                base = self.eval(t.value, env)
                idx = self.eval(t.slice, env)
                if isinstance(base, Model):
                    base.call_method(self, "__delitem__", [idx], {}, t)
                elif isinstance(base, PyList) and isinstance(idx, int):
                    self.ctx.log_write(base, "[]")
                    del base.items[idx]
                else:
                    raise Unsupported("del on %r" % (base,), st)
            else:
                raise Unsupported("del target", st)

    def st_If(self, st, env):
        if self.truth(self.eval(st.test, env), st.test):
            self.exec_block(st.body, env)
        else:
            self.exec_block(st.orelse, env)

    def st_Assert(self, st, env):
        v = self.eval(st.test, env)
        c = self.truth_expr(v, st.test)
        name = "%s/assert@L%d" % (env.finfo.qualname if env.finfo else "?", st.lineno)
        self.ctx.oblige(name, c if not isinstance(c, bool) else z3.BoolVal(c),
                        {"line": st.lineno, "implicit": "AssertionError"}, kind="implicit")

    def st_Raise(self, st, env):
        if st.exc is None:
            raise Unsupported("bare raise", st)
        e = self.eval(st.exc, env)
        if isinstance(e, Obj) and e.clsname in EXT_EXC:
            raise PyExc(e.clsname, e.fields.get("args", ()))
        if isinstance(e, ExtClass):
            raise PyExc(e.name, ())
        raise Unsupported("raise of %r" % (e,), st)

    def st_Try(self, st, env):
        if st.finalbody:
            raise Unsupported("try/finally", st)
        try:
            self.exec_block(st.body, env)
        except PyExc as e:
            for h in st.handlers:
                if h.type is None:
                    match = True
                else:
                    t = self.eval(h.type, env)
                    names = [x.name for x in (t if isinstance(t, tuple) else (t,))]
                    match = e.tname in names or "Exception" in names
                if match:
                    if h.name:
                        ex = Obj(None, {"args": e.eargs}, clsname=e.tname)
                        ex.fresh = True
                        env.locals[h.name] = ex
                    self.exec_block(h.body, env)
                    return
            raise
        else:
            self.exec_block(st.orelse, env)

    def st_While(self, st, env):
        ordinal = self.next_loop_ordinal(env, st)
        spec = self.loop_spec(env, ordinal)
        if spec is None:
            # concrete unrolling while the condition is decidable without forking
            n = 0
            while True:
                v = self.eval(st.test, env)
                c = self.truth_expr(v, st.test)
                cb = c if isinstance(c, bool) else as_const_bool(c)
                if cb is None:
                    raise Unsupported("while loop with symbolic condition needs an invariant", st)
                if not cb:
                    break
                n += 1
                if n > 10000:
                    raise Unsupported("while unrolling bound", st)
                try:
                    self.exec_block(st.body, env)
                except _Break:
                    return
                except _Continue:
                    continue
            self.exec_block(st.orelse, env)
            return
        counted = self.counting_while(st, env)
        if counted is None:
            raise Unsupported("while loop under a loop contract that is not a plain counting loop "
                              "(i < bound ... i += step): not implemented", st)
        var, fake, rng = counted
        seq = self.as_iterable(rng, st)
        if isinstance(seq, list):
            return self.st_For_items(fake, env, seq)
        self.symbolic_for(fake, env, seq, spec, ordinal)
        env.locals[var] = UNDEF     # after a while loop the counter is >= bound, after the for loop it is the last item

    def st_For_items(self, st, env, seq):
        for item in seq:
            self.assign(st.target, item, env)
            try:
                self.exec_block(st.body, env)
            except _Break:
                return
            except _Continue:
                continue
        self.exec_block(st.orelse, env)

    def counting_while(self, st, env):
        """`while i < bound: body; i += step` (counter initialised before the loop, incremented only by the last
        statement, no `continue`, bound not touched by the body) is the loop `for i in range(i0, bound, step): body`.
        Returns (counter name, equivalent For statement, range value) or None."""
        t = st.test
        if not (isinstance(t, ast.Compare) and len(t.ops) == 1 and isinstance(t.ops[0], ast.Lt)
                and isinstance(t.left, ast.Name) and st.body):
            return None
        var = t.left.id
        bound = t.comparators[0]
        last = st.body[-1]
        step = None
        if isinstance(last, ast.AugAssign) and isinstance(last.op, ast.Add) and isinstance(last.target, ast.Name) \
                and last.target.id == var and isinstance(last.value, ast.Constant) and isinstance(last.value.value, int):
            step = last.value.value
        elif isinstance(last, ast.Assign) and len(last.targets) == 1 and isinstance(last.targets[0], ast.Name) \
                and last.targets[0].id == var and isinstance(last.value, ast.BinOp) and isinstance(last.value.op, ast.Add) \
                and isinstance(last.value.left, ast.Name) and last.value.left.id == var \
                and isinstance(last.value.right, ast.Constant) and isinstance(last.value.right.value, int):
            step = last.value.right.value
        if step is None or step <= 0:
            return None
        body = st.body[:-1]
        bound_names = set(n.id for n in ast.walk(bound) if isinstance(n, ast.Name))
        for nd in ast.walk(bound):
            if isinstance(nd, ast.Call) and not (isinstance(nd.func, ast.Name) and nd.func.id == "len"):
                return None
        bound_names.discard("len")

        def visit(nodes, depth):
            for b in nodes:
                for nd in ast.walk(b):
                    if isinstance(nd, ast.Name) and isinstance(nd.ctx, ast.Store) and (nd.id == var or nd.id in bound_names):
                        return False
                    if isinstance(nd, ast.Call) and isinstance(nd.func, ast.Attribute) and isinstance(nd.func.value, ast.Name) \
                            and nd.func.value.id in bound_names:
                        return False          # a method call on the bounded object may change its length
                    if isinstance(nd, ast.Continue):
                        return False          # would skip the increment (conservative: also inside inner loops)
            return True
        if not visit(body, 0):
            return None
        start = env.locals.get(var, UNDEF)
        if start is UNDEF or not (isinstance(start, int) or (ops.is_sym(start) and z3.is_int(start))):
            return None
        stop = self.eval(bound, env)
        fake = ast.For(target=ast.Name(id=var, ctx=ast.Store()), iter=bound, body=body or [ast.Pass()], orelse=st.orelse)
        ast.copy_location(fake, st)
        ast.fix_missing_locations(fake)
        # keep the loop's position among the function's loops (ordinals are assigned by source position of `st`)
        self.loop_ordinals.setdefault(id(env.finfo.node), {})[id(fake)] = self.next_loop_ordinal(env, st)
        rng = BUILTINS["range"].fn(self, [start, stop, step], {}, st)
        return var, fake, rng

    # ---- for loops -------------------------------------------------------------
    def next_loop_ordinal(self, env, st):
        """Ordinal = position of the loop among all for/while statements of the function (source order)."""
        fi = env.finfo
        key = id(fi.node)
        tab = self.loop_ordinals.get(key)
        if tab is None:
            loops = [n for n in ast.walk(fi.node) if isinstance(n, (ast.For, ast.While))]
            loops.sort(key=lambda n: (n.lineno, n.col_offset))
            tab = {id(n): i for i, n in enumerate(loops)}
            self.loop_ordinals[key] = tab
        return tab[id(st)]

    def loop_spec(self, env, ordinal):
        if self.registry is None or env.finfo is None:
            return None
        con = self.registry.get(env.finfo.qualname)
        if con is not None and con.loops.get(ordinal) is not None:
            return con.loops.get(ordinal)
        if con is not None and con.loops:
            return None
        return self.adopted_loop_spec(env, ordinal)

    def adopted_loop_spec(self, env, ordinal):
        """A loop that was moved out of a function under a loop contract into a helper ("extract method"): if the helper has
        exactly one loop and exactly one function on the call stack has exactly one loop contract whose loop no longer exists
        in it, that contract is tried on the helper's loop.  Everything proved afterwards on this path is marked `adopted`:
        a failing obligation then means 'the adopted contract does not fit' (undecided), never a violation."""
        try:
            own_loops = [n for n in ast.walk(env.finfo.node) if isinstance(n, (ast.For, ast.While))]
            if len(own_loops) != 1 or ordinal != 0:
                return None
            found = []
            for q in self.ctx.fn_stack:
                cq = self.registry.get(q)
                if cq is None or not cq.loops or q == env.finfo.qualname:
                    continue
                fi = self.program.func(q)
                n_loops = len([n for n in ast.walk(fi.node) if isinstance(n, (ast.For, ast.While))])
                orphans = [o for o in cq.loops if o >= n_loops]
                if orphans:
                    found.append((cq, orphans))
            if len(found) != 1 or len(found[0][1]) != 1:
                return None
            self.ctx.adopted_loops = True
            self.ctx.assumed.add("loop contract of %s tried on the loop of its helper %s (the loop was moved)"
                                 % (found[0][0].qualname, env.finfo.qualname))
            return found[0][0].loops[found[0][1][0]]
        except Exception:
            return None

    def st_For(self, st, env):
        it = self.eval(st.iter, env)
        ordinal = self.next_loop_ordinal(env, st)
        seq = self.as_iterable(it, st)
        if isinstance(seq, list):
            for item in seq:
                self.assign(st.target, item, env)
                try:
                    self.exec_block(st.body, env)
                except _Break:
                    return
                except _Continue:
                    continue
            self.exec_block(st.orelse, env)
            return
        # symbolic length: loop rule with invariant
        spec = self.loop_spec(env, ordinal)
        if spec is None:
            raise Unsupported("loop #%d of %s over a symbolic sequence needs an invariant"
                              % (ordinal, env.finfo.qualname), st)
        self.symbolic_for(st, env, seq, spec, ordinal)

    def as_iterable(self, it, node):
        if isinstance(it, PyList):
            return list(it.items)
        if isinstance(it, (tuple, list)):
            return list(it)
        if isinstance(it, _Range):
            if all(isinstance(x, int) for x in (it.start, it.stop, it.step)):
                return list(range(it.start, it.stop, it.step))
            return it.as_symseq(self, node)
        if isinstance(it, SymSeq):
            return it
        if isinstance(it, Model):
            r = it.call_method(self, "__iter__", [], {}, node)
            return self.as_iterable(r, node)
        if isinstance(it, PyDict):
            return list(it.d.keys())
        raise Unsupported("iteration over %r" % (it,), node)

    def havoc_value(self, kind, base):
        ctx = self.ctx
        if callable(kind):
            return kind(ctx)
        if kind == "real":
            return ctx.real(base, record=False)
        if kind == "int":
            return ctx.int(base, record=False)
        if kind == "bool":
            return ctx.bool(base, record=False)
        if kind == "optreal":
            return Opt(ctx.bool(base + ".isnone", record=False), ctx.real(base, record=False))
        if kind == "forked-bool":
            return self.ctx.branch(ctx.bool(base, record=False))
        raise Unsupported("havoc kind %r" % (kind,))

    def kind_of(self, v):
        if isinstance(v, Opt):
            return "optreal"
        if is_bool(v):
            return "bool"
        if ops.is_sym(v) and z3.is_int(v):
            return "int"
        if is_number(v):
            return "real"
        if ops.is_sym(v):
            sort = v.sort()
            return lambda ctx: z3.Const(ctx.fresh_name("havoc"), sort)
        raise Unsupported("cannot havoc value %r (needs explicit kind)" % (v,))

    def resolve_path(self, root_env, path, node=None):
        """'a.b.c' -> (object holding field c, 'c')."""
        parts = path.split(".")
        if isinstance(root_env, dict):
            cur = root_env.get(parts[0], UNDEF)
        else:
            cur = getattr(root_env, parts[0])
        if cur is UNDEF:
            raise Unsupported("path %s: unknown root" % path, node)
        for p in parts[1:-1]:
            if isinstance(cur, Model) and not isinstance(cur, Obj) and hasattr(cur, p):
                cur = getattr(cur, p)
            else:
                cur = self.get_attr(cur, p, node)
        return cur, parts[-1]

    @staticmethod
    def assigned_only_before_leaving(body):
        """Names whose every assignment inside the loop body sits in a block that ends (as a direct statement of that block,
        after the assignment) with break / return / raise."""
        ok, bad = set(), set()

        def stores(stmt):
            return set(n.id for n in ast.walk(stmt) if isinstance(n, ast.Name) and isinstance(n.ctx, ast.Store))

        def block(stmts, inner_loop):
            leaves = bool(stmts) and isinstance(stmts[-1], (ast.Return, ast.Raise) + (() if inner_loop else (ast.Break,)))
            for st_ in stmts:
                if isinstance(st_, (ast.Assign, ast.AugAssign, ast.AnnAssign)):
                    (ok if leaves else bad).update(stores(st_))
                elif isinstance(st_, ast.If):
                    block(st_.body, inner_loop)
                    block(st_.orelse, inner_loop)
                elif isinstance(st_, (ast.For, ast.While)):
                    bad.update(stores(st_))            # assignments inside an inner loop: not analysed
                elif isinstance(st_, (ast.With, ast.Try)):
                    bad.update(stores(st_))
                else:
                    bad.update(stores(st_))
        block(body, False)
        return ok - bad

    def loop_aliases(self, st, env, spec, targets, stored):
        fn_names = set(a.arg for a in ast.walk(env.finfo.node) if isinstance(a, ast.arg))
        for nd in ast.walk(env.finfo.node):
            if isinstance(nd, ast.Name) and isinstance(nd.ctx, ast.Store):
                fn_names.add(nd.id)
        named = set(spec.havoc) | set(spec.scratch)
        missing = [nm for nm in spec.havoc if nm not in fn_names]
        if not missing:
            return {}
        referenced = set()
        for sub in st.body:
            for nd in ast.walk(sub):
                if isinstance(nd, ast.Name):
                    referenced.add(nd.id)

        def family(v):
            if isinstance(v, bool) or (ops.is_sym(v) and z3.is_bool(v)):
                return "flag"
            if isinstance(v, (PyList, list)) or hasattr(v, "arr") or hasattr(v, "items") and not isinstance(v, (dict, PyDict)):
                return "list"
            if v is None or isinstance(v, Opt) or is_number(v):
                return "number"
            return "other"

        def kind_family(kind):
            if kind in ("bool", "forked-bool"):
                return "flag"
            if kind in ("real", "int", "optreal"):
                return "number"
            if callable(kind):
                return "list"
            return "other"
        alias = {}
        for nm in missing:
            cands = [c for c in sorted(referenced) if c not in named and c not in targets and c in env.locals
                     and c not in fn_names_of_contract(spec) and env.locals[c] is not UNDEF
                     and family(env.locals[c]) == kind_family(spec.havoc[nm]) and c not in alias.values()]
            # a candidate must be live across iterations: assigned or mutated in the body
            cands = [c for c in cands if c in stored or kind_family(spec.havoc[nm]) == "list"]
            if len(cands) > 1:
                # several locals of the right kind (e.g. three flags renamed together): the one whose name contains the
                # contract's name (homeX -> shouldHomeX), if that singles one out
                close = [c for c in cands if nm.lower() in c.lower() or c.lower() in nm.lower()]
                if len(close) == 1:
                    cands = close
            if len(cands) != 1:
                raise Unsupported("loop contract of %s names local '%s', which the function no longer has, and %d locals could "
                                  "stand for it (contract/code shape mismatch)" % (env.finfo.qualname, nm, len(cands)), st)
            alias[nm] = cands[0]
        return alias

    def symbolic_for(self, st, env, seq, spec, ordinal):
        ctx = self.ctx
        fq = env.finfo.qualname
        n = seq.length
        lname = "%s/loop%d" % (fq, ordinal)
        frame = self.frames[-1] if self.frames else getattr(self, "frame", None)

        stored0 = set()
        for sub in st.body:
            for nd in ast.walk(sub):
                if isinstance(nd, ast.Name) and isinstance(nd.ctx, ast.Store):
                    stored0.add(nd.id)
        targets0 = set(nd.id for nd in ast.walk(st.target) if isinstance(nd, ast.Name))
        alias = self.loop_aliases(st, env, spec, targets0, stored0)

        def inv(k):
            return spec.invariant(View(env.locals, _alias=alias, f=frame, n=n, seq=seq), k)

        if spec.entry is not None:
            for item in spec.entry(View(env.locals, _alias=alias, f=frame, n=n, seq=seq)):
                cname, goal = item[0], item[1]
                using = [_b(h) for h in item[2]] if len(item) > 2 else None
                ctx.oblige("%s/%s" % (fq, cname), _b(goal), {"line": st.lineno, "props": list(getattr(spec, "check_props", ()))},
                           kind="loop", assume_after=True, using=using)
        ctx.oblige(lname + ".inv-entry", _b(inv(0)), {"line": st.lineno}, kind="loop")
        stored = set()
        for sub in st.body:
            for nd in ast.walk(sub):
                if isinstance(nd, ast.Name) and isinstance(nd.ctx, ast.Store):
                    stored.add(nd.id)
        targets = set(nd.id for nd in ast.walk(st.target) if isinstance(nd, ast.Name))
        # a local the contract names but the function never assigns has been renamed: bind the contract's name to the one
        # local referenced in the loop body, defined before the loop, unknown to the contract and of the same kind of
        # value (flag / number / list).  Anything ambiguous stays a contract/code mismatch (undecided).
        stored = set(stored) - set(alias.values())
        # locals the body assigns that the loop contract does not name are treated as per-iteration temporaries
        # (scratch): undefined at the start of every iteration and after the loop.  Sound: a read before the assignment,
        # or after the loop, is an unsupported construct (undecided), never a silent value.
        auto_scratch = [nm for nm in sorted(stored) if nm not in spec.havoc and nm not in targets and nm not in spec.scratch]
        # ... except locals that are only ever assigned immediately before leaving the loop (`found = True; break`): no
        # later iteration and no normal exit of the loop can see such an assignment, so they simply keep their value
        leaving_only = self.assigned_only_before_leaving(st.body)
        auto_scratch = [nm for nm in auto_scratch if nm not in leaving_only or nm not in env.locals]
        mode = ctx.choose(2, "loop")
        # havoc
        for nm, kind in spec.havoc.items():
            env.locals[alias.get(nm, nm)] = self.havoc_value(kind, "%s.%s" % (lname.split("/")[-1], nm))
        allowed = set()
        for path in spec.havoc_fields:
            if path.endswith(".*"):
                # the object's (opaque) internal state may change; nothing the function reads afterwards
                obj, fld = self.resolve_path(env.locals, path[:-2] + "._", st)
                allowed.add((id(obj), "*"))
                continue
            obj, fld = self.resolve_path(env.locals, path, st)
            cur = self.get_attr(obj, fld, st) if isinstance(obj, Obj) or not hasattr(obj, fld) else getattr(obj, fld)
            newv = self.havoc_value(self.kind_of(cur), "%s.%s" % (lname.split("/")[-1], path))
            self.raw_set(obj, fld, newv)
            ctx.log_write(obj, fld)
            allowed.add((id(obj), fld))
        for nm in list(spec.scratch) + auto_scratch:
            env.locals[nm] = UNDEF
        ctx.assume(_b(n >= 0) if ops.is_sym(n) else True)
        if mode == 0:
            k = ctx.int(lname.split("/")[-1] + ".k", record=False)
            ctx.assume(z3.And(k >= 0, k < n))
            ctx.assume(_b(inv(k)))
            ctx.ghost[lname + ".k"] = k
            if spec.reveal is not None:
                for eqn in spec.reveal(View(env.locals, _alias=alias, f=frame, n=n, seq=seq), k):
                    ctx.assume(_b(eqn), definitional=True)
            self.assign(st.target, seq.get(k), env)
            w0 = len(ctx.writes)
            pre_locals = dict(env.locals)
            try:
                self.exec_block(st.body, env)
            except _Continue:
                pass
            except _Break:
                self.check_loop_writes(w0, allowed, fq, ordinal, st)
                return
            self.check_loop_writes(w0, allowed, fq, ordinal, st)
            if spec.check is not None:
                for item in spec.check(View(env.locals, _alias=alias, f=frame, n=n, seq=seq, pre=View(pre_locals, _alias=alias)), k):
                    cname, goal = item[0], item[1]
                    using = [_b(h) for h in item[2]] if len(item) > 2 else None
                    ctx.oblige("%s/%s" % (fq, cname), _b(goal), {"line": st.lineno, "props": list(getattr(spec, "check_props", ()))},
                               kind="post", assume_after=True, using=using)
            ctx.oblige(lname + ".inv-preserved", _b(inv(k + 1)), {"line": st.lineno}, kind="loop")
            raise PathEnd()
        ctx.assume(_b(inv(n)))
        self.exec_block(st.orelse, env)

    def check_loop_writes(self, w0, allowed, fq, ordinal, st):
        for (cont, key) in self.ctx.writes[w0:]:
            if getattr(cont, "fresh_since", None) is not None:
                continue
            if getattr(cont, "fresh", False) and getattr(cont, "alloc_index", -1) >= w0:
                continue
            if (id(cont), key) not in allowed and (id(cont), "*") not in allowed:
                if getattr(cont, "loop_local", False):
                    continue
                raise Unsupported("loop #%d of %s writes %r.%s which the loop contract does not havoc"
                                  % (ordinal, fq, cont, key), st)

    # ------------------------------------------------------------------ assignment
    def assign(self, target, v, env):
        if isinstance(target, ast.Name):
            env.locals[target.id] = v
        elif isinstance(target, (ast.Tuple, ast.List)):
            items = self.unpack(v, len(target.elts), target)
            for t, x in zip(target.elts, items):
                self.assign(t, x, env)
        elif isinstance(target, ast.Attribute):
            base = self.eval(target.value, env)
            self.set_attr(base, target.attr, v, target)
        elif isinstance(target, ast.Subscript):
            base = self.eval(target.value, env)
            idx = self.eval(target.slice, env)
            self.store_subscript(base, idx, v, target)
        else:
            raise Unsupported("assignment target", target)

    def unpack(self, v, n, node):
        if isinstance(v, (tuple, list)):
            items = list(v)
        elif isinstance(v, PyList):
            items = list(v.items)
        else:
            raise Unsupported("unpacking of %r" % (v,), node)
        if len(items) != n:
            raise PyExc("ValueError", ("unpack length",))
        return items

    def raw_set(self, obj, name, v):
        if isinstance(obj, Obj):
            obj.fields[name] = v
        else:
            setattr(obj, name, v)

    def set_attr(self, base, name, v, node):
        if isinstance(base, OptObj):
            base = self.unwrap(base, node, "attribute store on None")
        if isinstance(base, Obj):
            if base.cls is not None:
                ps = self.find_prop(base.cls, name, setter=True)
                if ps is not None:
                    self.invoke(ps, base, [v], {}, node)
                    return
                if self.find_prop(base.cls, name) is not None:
                    raise PyExc("AttributeError", ("can't set attribute",))
            self.ctx.log_write(base, name)
            base.fields[name] = v
            return
        if isinstance(base, Model):
            base.set_attr(self, name, v, node)
            return
        if base is None or isinstance(base, Opt):
            self.none_obligation(base, node, "attribute store on None")
        raise Unsupported("attribute store on %r" % (base,), node)

    def store_subscript(self, base, idx, v, node):
        if isinstance(base, Model):
            base.call_method(self, "__setitem__", [idx, v], {}, node)
            return
        if isinstance(base, PyList) and isinstance(idx, int):
            self.ctx.log_write(base, "[]")
            base.items[idx] = v
            return
        if isinstance(base, PyDict) and isinstance(idx, str):
            self.ctx.log_write(base, idx)
            base.d[idx] = v
            return
        raise Unsupported("subscript store on %r[%r]" % (base, idx), node)

    # ------------------------------------------------------------------ expressions
    def eval(self, node, env):
        m = getattr(self, "ex_" + node.__class__.__name__, None)
        if m is None:
            raise Unsupported("expression %s" % node.__class__.__name__, node)
        return m(node, env)

    def ex_Constant(self, node, env):
        v = node.value
        if isinstance(v, float):
            return Fraction(repr(v))
        if isinstance(v, bytes):
            raise Unsupported("bytes literal", node)
        return v

    def load_name(self, name, env, node):
        if name in env.locals:
            v = env.locals[name]
            if v is UNDEF:
                raise Unsupported("use of local '%s' that is undefined/havocked here" % name, node)
            return v
        g = self.module_globals(env.module)
        if name in g:
            v = g[name]
            if v is UNDEF:
                raise Unsupported("module constant '%s' could not be folded" % name, node)
            return v
        if name in BUILTINS:
            return BUILTINS[name]
        if name in EXT_EXC:
            return ExtClass(name)
        raise Unsupported("unknown name '%s'" % name, node)

    def ex_Name(self, node, env):
        return self.load_name(node.id, env, node)

    def ex_Tuple(self, node, env):
        return tuple(self.eval_elts(node.elts, env))

    def ex_List(self, node, env):
        lst = PyList(self.eval_elts(node.elts, env))
        lst.fresh = True
        lst.alloc_index = len(self.ctx.writes)
        return lst

    def eval_elts(self, elts, env):
        out = []
        for e in elts:
            if isinstance(e, ast.Starred):
                v = self.eval(e.value, env)
                out.extend(self.as_concrete_items(v, e))
            else:
                out.append(self.eval(e, env))
        return out

    def as_concrete_items(self, v, node):
        if isinstance(v, (tuple, list)):
            return list(v)
        if isinstance(v, PyList):
            return list(v.items)
        raise Unsupported("star-expansion of %r" % (v,), node)

    def ex_Dict(self, node, env):
        d = {}
        for k, v in zip(node.keys, node.values):
            if k is None:
                raise Unsupported("dict unpacking literal", node)
            kk = self.eval(k, env)
            if not isinstance(kk, str):
                raise Unsupported("non-string dict key", node)
            d[kk] = self.eval(v, env)
        r = PyDict(d)
        r.fresh = True
        return r

    def ex_IfExp(self, node, env):
        if self.truth(self.eval(node.test, env), node.test):
            return self.eval(node.body, env)
        return self.eval(node.orelse, env)

    _PURE_NODES = (ast.Compare, ast.BoolOp, ast.UnaryOp, ast.Name, ast.Attribute, ast.Constant, ast.Load, ast.And, ast.Or,
                   ast.Not, ast.Is, ast.IsNot, ast.Eq, ast.NotEq, ast.Lt, ast.LtE, ast.Gt, ast.GtE, ast.In, ast.NotIn,
                   ast.USub, ast.UAdd, ast.BinOp, ast.Add, ast.Sub, ast.Mult, ast.IfExp, ast.Subscript, ast.Tuple)

    def ex_GeneratorExp(self, node, env):
        """A generator expression is evaluated eagerly like the list comprehension with the same text.  That differs from
        Python only through side effects or exceptions of elements a consumer would not have asked for (any / all stop
        early), so the element and filter expressions must be syntactically free of calls."""
        for part in [node.elt] + [c for g in node.generators for c in g.ifs]:
            for nd in ast.walk(part):
                if not isinstance(nd, self._PURE_NODES):
                    raise Unsupported("generator expression with a %s in its element" % type(nd).__name__, node)
        return self.ex_ListComp(node, env)

    def ex_ListComp(self, node, env):
        if len(node.generators) != 1:
            raise Unsupported("list comprehension shape", node)
        gen = node.generators[0]
        it = self.as_iterable(self.eval(gen.iter, env), node)
        if isinstance(it, list):
            out = []
            sub = Env(env.finfo, env.module, dict(env.locals))
            for item in it:
                self.assign(gen.target, item, sub)
                if all(self.truth(self.eval(c, sub), c) for c in gen.ifs):
                    out.append(self.eval(node.elt, sub))
            r = PyList(out)
            r.fresh = True
            return r
        if gen.ifs:
            raise Unsupported("filtered comprehension over a symbolic sequence", node)
        # symbolic map: lazily evaluated element-wise (element expression must be pure)
        interp = self

        def getter(k):
            sub = Env(env.finfo, env.module, dict(env.locals))
            interp.assign(gen.target, it.get(k), sub)
            return interp.eval(node.elt, sub)
        return SymSeq(it.length, getter, name="map(%s)" % it.name)

    def ex_Attribute(self, node, env):
        base = self.eval(node.value, env)
        return self.get_attr(base, node.attr, node)

    def none_obligation(self, v, node, what):
        """Accessing/using `v` requires v is not None."""
        if v is None:
            name = "%s/no-None@L%s" % (self.ctx.fn_stack[-1] if self.ctx.fn_stack else "?",
                                       getattr(node, "lineno", "?"))
            self.ctx.oblige(name, z3.BoolVal(False), {"implicit": "TypeError/AttributeError", "what": what},
                            kind="implicit")
            raise PathDead()
        if isinstance(v, Opt):
            c = as_const_bool(v.isnone) if not isinstance(v.isnone, bool) else v.isnone
            if c is False:
                return v.val
            name = "%s/no-None@L%s" % (self.ctx.fn_stack[-1] if self.ctx.fn_stack else "?",
                                       getattr(node, "lineno", "?"))
            self.ctx.oblige(name, ops.Not(v.isnone) if not isinstance(v.isnone, bool) else (not v.isnone),
                            {"implicit": "TypeError", "what": what}, kind="implicit")
            return v.val
        return v

    def unwrap(self, base, node, what):
        """OptObj -> the referenced object, with the implicit not-None obligation."""
        c = as_const_bool(base.isnone) if not isinstance(base.isnone, bool) else base.isnone
        if c is not False:
            fn = self.ctx.fn_stack[-1] if self.ctx.fn_stack else "?"
            self.ctx.oblige("%s/no-None@L%s" % (fn, getattr(node, "lineno", "?")),
                            ops.Not(base.isnone) if not isinstance(base.isnone, bool) else (not base.isnone),
                            {"implicit": "AttributeError", "what": what}, kind="implicit")
        return base.obj

    def get_attr(self, base, name, node=None):
        if isinstance(base, OptObj):
            base = self.unwrap(base, node, "attribute %s of None" % name)
        if isinstance(base, Obj):
            if base.cls is not None:
                pg = self.find_prop(base.cls, name)
                if pg is not None:
                    return self.invoke(pg, base, [], {}, node)
            if name in base.fields:
                v = base.fields[name]
                if isinstance(v, Lazy):
                    v = v.force()
                    base.fields[name] = v
                return v
            if base.cls is not None:
                m = self.find_method(base.cls, name)
                if m is not None:
                    return BoundMethod(base, m)
            if name == "__class__":
                return ClassRef(base.cls) if base.cls is not None else ExtClass(base.clsname)
            if name == "__dict__":
                d = PyDict(base.fields)
                d.fresh = True
                return d
            raise PyExc("AttributeError", ("%s has no attribute %s" % (base.clsname, name),))
        if isinstance(base, Model):
            try:
                return base.get_attr(self, name, node)
            except Unsupported:
                # not a data attribute the model knows: a reference to the method of that name (`g = match.group`); it can
                # only be called -- the call goes through the model's call_method like a direct call
                return _ModelMethod(base, name)
        if isinstance(base, ExtModule):
            return self.externals.module_attr(self, base, name, node)
        if isinstance(base, ClassRef):
            m = self.find_method(base.cinfo, name)
            if m is not None:
                return BoundMethod(None, m) if m.kind == "static" else _Unbound(m)
            if name == "__name__":
                return base.cinfo.name
            raise Unsupported("class attribute %s.%s" % (base.cinfo.name, name), node)
        if base is None or isinstance(base, Opt):
            self.none_obligation(base, node, "attribute %s of None" % name)
            raise Unsupported("attribute %s of number" % name, node)
        if isinstance(base, (PyList, PyDict, tuple)) or is_strlike(base) or isinstance(base, SymSeq):
            return _BuiltinMethod(base, name)
        raise Unsupported("attribute %s of %r" % (name, base), node)

    def ex_Subscript(self, node, env):
        base = self.eval(node.value, env)
        if isinstance(node.slice, ast.Slice):
            lo = self.eval(node.slice.lower, env) if node.slice.lower is not None else None
            hi = self.eval(node.slice.upper, env) if node.slice.upper is not None else None
            if node.slice.step is not None:
                raise Unsupported("slice step", node)
            return self.slice(base, lo, hi, node)
        idx = self.eval(node.slice, env)
        return self.subscript(base, idx, node)

    def slice(self, base, lo, hi, node):
        if isinstance(base, Opt) and base.kind == "str":
            base = self.none_obligation(base, node, "slice of None")
        if isinstance(base, str) and (lo is None or isinstance(lo, int)) and (hi is None or isinstance(hi, int)):
            return base[lo:hi]
        if isinstance(base, (tuple,)) and (lo is None or isinstance(lo, int)) and (hi is None or isinstance(hi, int)):
            return base[lo:hi]
        if isinstance(base, PyList) and (lo is None or isinstance(lo, int)) and (hi is None or isinstance(hi, int)):
            r = PyList(base.items[lo:hi])
            r.fresh = True
            return r
        return self.externals.slice(self, base, lo, hi, node)

    def subscript(self, base, idx, node):
        if isinstance(base, Model):
            return base.call_method(self, "__getitem__", [idx], {}, node)
        if isinstance(base, SymSeq):
            k = idx
            n = base.length
            fn = self.ctx.fn_stack[-1] if self.ctx.fn_stack else "?"
            self.ctx.oblige("%s/index-in-range@L%s" % (fn, getattr(node, "lineno", "?")),
                            _b(ops.And(k >= 0, k < n)), {"implicit": "IndexError"}, kind="implicit")
            return base.get(k)
        if isinstance(base, (tuple, list, PyList)):
            items = base.items if isinstance(base, PyList) else base
            if isinstance(idx, int):
                if -len(items) <= idx < len(items):
                    return items[idx]
                fn = self.ctx.fn_stack[-1] if self.ctx.fn_stack else "?"
                self.ctx.oblige("%s/index-in-range@L%s" % (fn, getattr(node, "lineno", "?")), False,
                                {"implicit": "IndexError"}, kind="implicit")
                raise PathDead()
            if ops.is_sym(idx):
                # symbolic index into a concrete sequence: case split
                for i in range(len(items)):
                    if self.ctx.branch(idx == i):
                        return items[i]
                fn = self.ctx.fn_stack[-1] if self.ctx.fn_stack else "?"
                self.ctx.oblige("%s/index-in-range@L%s" % (fn, getattr(node, "lineno", "?")), False,
                                {"implicit": "IndexError"}, kind="implicit")
                raise PathDead()
        if isinstance(base, PyDict):
            if isinstance(idx, str):
                if idx in base.d:
                    return base.d[idx]
                raise PyExc("KeyError", (idx,))
        if isinstance(base, str) and isinstance(idx, int):
            if -len(base) <= idx < len(base):
                return base[idx]
            raise PyExc("IndexError", ())
        return self.externals.subscript(self, base, idx, node)

    # ---- operators ---------------------------------------------------------------
    def ex_UnaryOp(self, node, env):
        v = self.eval(node.operand, env)
        if isinstance(node.op, ast.Not):
            return ops.Not(self.truth_expr(v, node.operand))
        if isinstance(node.op, ast.USub):
            v = self.num(v, node)
            return -v
        if isinstance(node.op, ast.UAdd):
            return self.num(v, node)
        raise Unsupported("unary op", node)

    def num(self, v, node):
        """Coerce to a number usable in arithmetic; emits the implicit not-None obligation."""
        if isinstance(v, bool):
            return int(v)
        if is_number(v):
            return v
        if v is None or isinstance(v, Opt):
            return self.none_obligation(v, node, "arithmetic on None")
        if ops.is_sym(v) and z3.is_bool(v):
            return z3.If(v, z3.RealVal(1), z3.RealVal(0))
        if isinstance(v, Model) and hasattr(v, "term") and hasattr(v, "pytype"):
            return v.term          # a typed Python number (pyvc.pynum): arithmetic sees its value
        raise Unsupported("arithmetic on %r" % (v,), node)

    def ex_BinOp(self, node, env):
        a = self.eval(node.left, env)
        b = self.eval(node.right, env)
        return self.binop(node.op, a, b, node)

    def binop(self, op, a, b, node):
        if isinstance(a, Opt) and a.kind == "str":
            a = self.none_obligation(a, node, "string operation on None")
        if isinstance(b, Opt) and b.kind == "str":
            b = self.none_obligation(b, node, "string operation on None")
        if isinstance(op, ast.Add):
            if is_strlike(a) and is_strlike(b):
                return mkstr([a, b])
            if isinstance(a, PyList) and isinstance(b, PyList):
                r = PyList(a.items + b.items)
                r.fresh = True
                return r
            if isinstance(a, tuple) and isinstance(b, tuple):
                return a + b
            if is_strlike(a) or is_strlike(b):
                raise PyExc("TypeError", ("str + non-str",))
        if isinstance(op, ast.Mod) and is_strlike(a):
            args = b if isinstance(b, tuple) else (b,)
            return mkstr(["%("] + [Hole(x) for x in args] + [")"]) if not isinstance(a, str) else \
                self.externals.percent_format(self, a, args, node)
        if isinstance(op, ast.BitXor):
            if is_bool(a) and is_bool(b):
                if isinstance(a, bool) and isinstance(b, bool):
                    return a ^ b
                return z3.Xor(ops.lift(a), ops.lift(b))
            if isinstance(a, int) and isinstance(b, int):
                return a ^ b
            return self.externals.bitxor(self, a, b, node)
        if isinstance(op, ast.Mult) and isinstance(a, str) and isinstance(b, int):
            return a * b
        x = self.num(a, node)
        y = self.num(b, node)
        conc = conc_number(x) and conc_number(y)
        if isinstance(op, ast.Add):
            return x + y
        if isinstance(op, ast.Sub):
            return x - y
        if isinstance(op, ast.Mult):
            return x * y
        if isinstance(op, ast.Div):
            if conc:
                if y == 0:
                    self.div_obligation(False, node)
                    raise PathDead()
                return Fraction(x) / Fraction(y)
            self.div_obligation(to_real(y) != 0, node)
            return to_real(x) / to_real(y)
        raise Unsupported("binary op %s" % op.__class__.__name__, node)

    def div_obligation(self, cond, node):
        fn = self.ctx.fn_stack[-1] if self.ctx.fn_stack else "?"
        self.ctx.oblige("%s/no-ZeroDivisionError@L%s" % (fn, getattr(node, "lineno", "?")), cond,
                        {"implicit": "ZeroDivisionError"}, kind="implicit")

    def ex_BoolOp(self, node, env):
        is_and = isinstance(node.op, ast.And)
        vals = node.values
        cur = self.eval(vals[0], env)
        for nxt in vals[1:]:
            # merge pure symbolic Booleans into one formula instead of forking
            if ops.is_sym(cur) and z3.is_bool(cur) and as_const_bool(cur) is None:
                merged = self.try_pure(nxt, env)
                if merged is not _NOT_PURE and is_bool(merged):
                    cur = ops.And(cur, merged) if is_and else ops.Or(cur, merged)
                    continue
            t = self.truth(cur, node)
            if is_and:
                if not t:
                    return cur
            else:
                if t:
                    return cur
            cur = self.eval(nxt, env)
        return cur

    def try_pure(self, node, env):
        ctx = self.ctx
        ctx.pure += 1
        npc = len(ctx.pc)
        saved_counter = dict(ctx.counter)
        try:
            return self.eval(node, env)
        except (NotPure, PathDead, PyExc):
            del ctx.pc[npc:]
            ctx.counter = saved_counter
            return _NOT_PURE
        finally:
            ctx.pure -= 1

    def ex_Compare(self, node, env):
        left = self.eval(node.left, env)
        result = None
        for op, rn in zip(node.ops, node.comparators):
            if result is not None:
                # chain: a < b < c ; evaluate lazily
                if not self.truth(result, node):
                    return result
            right = self.eval(rn, env)
            result = self.compare(op, left, right, node)
            left = right
        return result

    def compare(self, op, a, b, node):
        if isinstance(op, (ast.Is, ast.IsNot)):
            r = self.identical(a, b, node)
            return r if isinstance(op, ast.Is) else ops.Not(r)
        if isinstance(op, (ast.In, ast.NotIn)):
            r = self.contains(b, a, node)
            return r if isinstance(op, ast.In) else ops.Not(r)
        if isinstance(op, (ast.Eq, ast.NotEq)):
            r = self.equals(a, b, node)
            return r if isinstance(op, ast.Eq) else ops.Not(r)
        x = self.num(a, node) if not is_strlike(a) else a
        y = self.num(b, node) if not is_strlike(b) else b
        if is_strlike(x) or is_strlike(y):
            raise Unsupported("ordering on strings", node)
        if isinstance(op, ast.Lt):
            return _cmp(x, y, lambda p, q: p < q)
        if isinstance(op, ast.LtE):
            return _cmp(x, y, lambda p, q: p <= q)
        if isinstance(op, ast.Gt):
            return _cmp(x, y, lambda p, q: p > q)
        if isinstance(op, ast.GtE):
            return _cmp(x, y, lambda p, q: p >= q)
        raise Unsupported("compare op", node)

    def identical(self, a, b, node):
        if b is None and isinstance(a, (Opt, OptObj)):
            return a.isnone
        if a is None and isinstance(b, (Opt, OptObj)):
            return b.isnone
        if isinstance(a, OptObj) or isinstance(b, OptObj):
            raise Unsupported("'is' between optional object references", node)
        if a is None or b is None:
            return a is None and b is None
        if isinstance(a, (Obj, PyList, PyDict, Model)) or isinstance(b, (Obj, PyList, PyDict, Model)):
            return a is b
        if isinstance(a, bool) and isinstance(b, bool):
            return a == b
        if (is_symstr(a) or isinstance(a, str)) and (is_symstr(b) or isinstance(b, str)):
            # identity of strings: the same value object is identical to itself; two equal strings may or may not be the
            # same object (interning is an implementation detail), different strings never are
            if a is b or (ops.is_sym(a) and ops.is_sym(b) and a.eq(b)):
                return True
            self.ctx.assumed.add("A2:`is` between strings: identical implies equal; equal strings need not be identical")
            same = self.ctx.bool("str.is", record=False)
            self.ctx.assume(z3.Implies(same, ops.lift(a) == ops.lift(b)), definitional=True)
            return same
        raise Unsupported("'is' on %r, %r" % (a, b), node)

    def equals(self, a, b, node):
        if isinstance(a, Opt) and isinstance(b, Opt):
            if a.kind != b.kind:
                return ops.And(a.isnone, b.isnone)      # a number never equals a string
            return ops.Or(ops.And(a.isnone, b.isnone),
                          ops.And(ops.Not(a.isnone), ops.Not(b.isnone), a.val == b.val))
        if isinstance(a, Opt):
            a, b = b, a
        if isinstance(b, Opt):
            if a is None:
                return b.isnone
            if is_number(a) and b.kind == "num":
                return ops.And(ops.Not(b.isnone), _cmp(a, b.val, lambda p, q: p == q))
            if is_strlike(a) and b.kind == "str":
                return ops.And(ops.Not(b.isnone), self.externals.str_equals(self, a, b.val, node))
            return False
        if a is None or b is None:
            return a is None and b is None
        if is_bool(a) and is_bool(b):
            if isinstance(a, bool) and isinstance(b, bool):
                return a == b
            return ops.lift(a) == ops.lift(b)
        if is_number(a) and is_number(b):
            return _cmp(a, b, lambda p, q: p == q)
        if is_strlike(a) and is_strlike(b):
            return self.externals.str_equals(self, a, b, node)
        if is_strlike(a) != is_strlike(b) and (is_number(a) or is_number(b) or is_bool(a) or is_bool(b)):
            return False
        if isinstance(a, tuple) and isinstance(b, tuple):
            if len(a) != len(b):
                return False
            return ops.And(*[self.equals(x, y, node) for x, y in zip(a, b)]) if a else True
        if isinstance(a, Model):
            return a.call_method(self, "__eq__", [b], {}, node)
        if isinstance(b, Model):
            return b.call_method(self, "__eq__", [a], {}, node)
        if isinstance(a, (Obj, PyList, PyDict)) and isinstance(b, (Obj, PyList, PyDict)) and a is b:
            return True
        raise Unsupported("== on %r, %r" % (a, b), node)

    def contains(self, container, item, node):
        if isinstance(container, (tuple, list, PyList)):
            items = container.items if isinstance(container, PyList) else container
            if not items:
                return False
            return ops.Or(*[self.equals(item, x, node) for x in items])
        if isinstance(container, PyDict):
            if isinstance(item, str):
                return item in container.d
        if isinstance(container, Model):
            return container.call_method(self, "__contains__", [item], {}, node)
        if isinstance(container, str) and isinstance(item, str):
            return item in container
        if is_symstr(container) and isinstance(item, str):
            # a literal needle: as a regular-language membership (.*needle.*), which combines with other memberships
            anyc = z3.Full(z3.ReSort(z3.StringSort()))
            return z3.InRe(container, z3.Concat(anyc, z3.Re(item), anyc))
        if (is_symstr(container) or isinstance(container, str)) and (is_symstr(item) or isinstance(item, str)):
            return z3.Contains(ops.lift(container), ops.lift(item))
        raise Unsupported("'in' on %r" % (container,), node)

    # ---- truthiness ----------------------------------------------------------------
    def truth_expr(self, v, node):
        """Truth value of v as Python bool or z3 Bool (no forking)."""
        if v is None:
            return False
        if isinstance(v, bool):
            return v
        if isinstance(v, (int, Fraction)):
            return v != 0
        if isinstance(v, str):
            return len(v) > 0
        if isinstance(v, (tuple, list)):
            return len(v) > 0
        if isinstance(v, PyList):
            return len(v.items) > 0
        if isinstance(v, PyDict):
            return len(v.d) > 0
        if isinstance(v, (Obj, BoundMethod, ClassRef)):
            return True
        if isinstance(v, Opt):
            if v.kind == "str":
                return ops.And(ops.Not(v.isnone), self.truth_expr(v.val, node))
            return ops.And(ops.Not(v.isnone), v.val != 0)
        if isinstance(v, OptObj):
            return ops.Not(v.isnone)
        if isinstance(v, SymSeq):
            return v.length > 0 if ops.is_sym(v.length) else v.length > 0
        if isinstance(v, Model):
            return v.call_method(self, "__bool__", [], {}, node)
        if ops.is_sym(v):
            if z3.is_bool(v):
                return v
            if z3.is_real(v) or z3.is_int(v):
                return v != 0
            if z3.is_string(v):
                return z3.Length(v) > 0
        if isinstance(v, SStr):
            return self.externals.str_truth(self, v, node)
        raise Unsupported("truth value of %r" % (v,), node)

    def truth(self, v, node):
        e = self.truth_expr(v, node)
        if isinstance(e, bool):
            return e
        return self.ctx.branch(e)

    # ---- calls -----------------------------------------------------------------------
    def ex_Call(self, node, env):
        fn_node = node.func
        args = []
        for a in node.args:
            if isinstance(a, ast.Starred):
                v = self.eval(a.value, env)
                if isinstance(v, SymSeq):
                    args.append(_StarSeq(v))
                else:
                    args.extend(self.as_concrete_items(v, a))
            else:
                args.append(self.eval(a, env))
        kwargs = {}
        for kw in node.keywords:
            if kw.arg is None:
                v = self.deref(self.eval(kw.value, env))
                if isinstance(v, PyDict):
                    kwargs.update(v.d)
                elif isinstance(v, Model):
                    kwargs["**"] = v
                else:
                    raise Unsupported("** of %r" % (v,), node)
            else:
                kwargs[kw.arg] = self.eval(kw.value, env)
        # super(...).__init__(...)
        if isinstance(fn_node, ast.Attribute) and isinstance(fn_node.value, ast.Call) and \
                isinstance(fn_node.value.func, ast.Name) and fn_node.value.func.id == "super":
            return self.externals.super_call(self, env, fn_node.attr, args, kwargs, node)
        if isinstance(fn_node, ast.Attribute):
            base = self.eval(fn_node.value, env)
            return self.call_method(base, fn_node.attr, args, kwargs, node)
        fn = self.eval(fn_node, env)
        return self.call_value(fn, args, kwargs, node)

    def call_method(self, base, name, args, kwargs, node):
        if isinstance(base, Opt) and base.kind == "str":
            base = self.none_obligation(base, node, "method %s of None" % name)
        if isinstance(base, OptObj):
            base = self.unwrap(base, node, "method %s of None" % name)
        if isinstance(base, Obj):
            if base.cls is not None:
                m = self.find_method(base.cls, name)
                if m is not None:
                    return self.invoke(m, base, args, kwargs, node)
            if name in base.fields:
                return self.call_value(base.fields[name], args, kwargs, node)
            raise PyExc("AttributeError", ("%s has no method %s" % (base.clsname, name),))
        if isinstance(base, Model):
            return base.call_method(self, name, args, kwargs, node)
        if isinstance(base, ExtModule):
            return self.externals.module_call(self, base, name, args, kwargs, node)
        if isinstance(base, PyList):
            return self.list_method(base, name, args, kwargs, node)
        if isinstance(base, PyDict):
            return self.dict_method(base, name, args, kwargs, node)
        if is_strlike(base):
            return self.externals.str_method(self, base, name, args, kwargs, node)
        if isinstance(base, ClassRef):
            m = self.find_method(base.cinfo, name)
            if m is not None:
                if m.kind == "static":
                    return self.invoke(m, None, args, kwargs, node)
                return self.invoke(m, args[0], args[1:], kwargs, node)
        if base is None or isinstance(base, Opt):
            self.none_obligation(base, node, "method %s of None" % name)
        if isinstance(base, _Unbound):
            pass
        raise Unsupported("method %s on %r" % (name, base), node)

    def list_extend(self, lst, other, node):
        self.ctx.log_write(lst, "[]")
        if isinstance(other, PyList):
            lst.items.extend(other.items)
        elif isinstance(other, (tuple, list)):
            lst.items.extend(other)
        elif isinstance(other, SymSeq):
            lst.items.append(Splice(other.name, other))
        else:
            raise Unsupported("list.extend(%r)" % (other,), node)

    def list_method(self, lst, name, args, kwargs, node):
        if name == "append":
            self.ctx.log_write(lst, "[]")
            lst.items.append(args[0])
            return None
        if name == "extend":
            self.list_extend(lst, args[0], node)
            return None
        if name == "insert" and isinstance(args[0], int):
            self.ctx.log_write(lst, "[]")
            lst.items.insert(args[0], args[1])
            return None
        raise Unsupported("list.%s" % name, node)

    def dict_method(self, d, name, args, kwargs, node):
        if name == "get":
            k = args[0]
            dflt = args[1] if len(args) > 1 else None
            if isinstance(k, str):
                return d.d.get(k, dflt)
        if name == "items":
            return [(k, v) for k, v in d.d.items()]
        if name == "keys":
            return list(d.d.keys())
        if name == "copy":
            r = PyDict(d.d)
            r.fresh = True
            return r
        if name == "pop" and isinstance(args[0], str):
            self.ctx.log_write(d, args[0])
            if args[0] in d.d:
                return d.d.pop(args[0])
            if len(args) > 1:
                return args[1]
            raise PyExc("KeyError", (args[0],))
        raise Unsupported("dict.%s(%r)" % (name, args), node)

    def ex_JoinedStr(self, node, env):
        raise Unsupported("f-string", node)

    def ex_Lambda(self, node, env):
        raise Unsupported("lambda", node)


def env_for_globals(env, g):
    return env


_NOT_PURE = object()


class _StarSeq(object):
    """Marker: *args expansion of a symbolic sequence."""

    def __init__(self, seq):
        self.seq = seq


class _Unbound(object):
    def __init__(self, finfo):
        self.finfo = finfo


class _Builtin(object):
    def __init__(self, name, fn):
        self.name = name
        self.fn = fn

    def __repr__(self):
        return "<builtin %s>" % self.name


class _ModelMethod(object):
    def __init__(self, obj, name):
        self.obj = obj
        self.name = name


class _BuiltinMethod(object):
    def __init__(self, base, name):
        self.base = base
        self.name = name


class _Range(object):
    def __init__(self, start, stop, step):
        self.start, self.stop, self.step = start, stop, step

    def as_symseq(self, interp, node):
        if not (isinstance(self.step, int) and self.step > 0 and isinstance(self.start, int)):
            raise Unsupported("symbolic range shape", node)
        start, step = self.start, self.step
        stop = self.stop
        if ops.is_sym(stop) and not z3.is_int(stop):
            raise Unsupported("range() over a non-integer", node)
        # number of elements: max(0, ceil((stop-start)/step))
        if step == 1:
            n = z3.If(stop - start >= 0, stop - start, z3.IntVal(0))
        else:
            d = stop - start
            n = z3.If(d > 0, (d + (step - 1)) / step, z3.IntVal(0))
        return SymSeq(n, lambda k: start + k * step, name="range")


def _b(v):
    if isinstance(v, bool):
        return z3.BoolVal(v)
    return v


def _cmp(x, y, f):
    if conc_number(x) and conc_number(y):
        return bool(f(x, y))
    if ops.is_sym(x) and ops.is_sym(y):
        if z3.is_int(x) and z3.is_real(y):
            x = z3.ToReal(x)
        elif z3.is_real(x) and z3.is_int(y):
            y = z3.ToReal(y)
        return f(x, y)
    if ops.is_sym(x):
        yy = to_real(y)
        if z3.is_int(x):
            if isinstance(y, int):
                yy = z3.IntVal(y)
            else:
                x = z3.ToReal(x)
        return f(x, yy)
    xx = to_real(x)
    if z3.is_int(y):
        if isinstance(x, int):
            xx = z3.IntVal(x)
        else:
            y = z3.ToReal(y)
    return f(xx, y)


# ---------------------------------------------------------------------- builtins
def _bi_len(interp, args, kwargs, node):
    v = args[0]
    if isinstance(v, Opt) and v.kind == "str":
        v = interp.none_obligation(v, node, "len(None)")
    if isinstance(v, (str, tuple, list)):
        return len(v)
    if isinstance(v, PyList):
        return len(v.items)
    if isinstance(v, PyDict):
        return len(v.d)
    if isinstance(v, SymSeq):
        return v.length
    if isinstance(v, Model):
        return v.call_method(interp, "__len__", [], {}, node)
    if is_symstr(v):
        return z3.Length(v)
    if isinstance(v, SStr):
        return interp.externals.str_len(interp, v, node)
    raise Unsupported("len(%r)" % (v,), node)


def _bi_range(interp, args, kwargs, node):
    if len(args) == 1:
        return _Range(0, args[0], 1)
    if len(args) == 2:
        return _Range(args[0], args[1], 1)
    return _Range(args[0], args[1], args[2])


def _bi_isinstance(interp, args, kwargs, node):
    v, t = args
    v = interp.deref(v)
    ts = t if isinstance(t, tuple) else (t,)
    for c in ts:
        if isinstance(c, ClassRef):
            if isinstance(v, Obj) and v.cls is not None and c.cinfo in v.cls.mro(interp.program):
                return True
        elif isinstance(c, ExtClass):
            if interp.externals.isinstance_ext(interp, v, c, node):
                return True
        elif isinstance(c, _Builtin):
            if c.name == "list" and isinstance(v, PyList):
                return True
            if c.name == "tuple" and isinstance(v, tuple):
                return True
            if c.name == "str" and is_strlike(v):
                return True
            if c.name == "dict" and isinstance(v, PyDict):
                return True
            if c.name == "float" and is_number(v) and not isinstance(v, int):
                return True
            if isinstance(v, Model) and getattr(v, "pytype", None) == c.name:
                return True
        else:
            raise Unsupported("isinstance against %r" % (c,), node)
    return False


def _bi_float(interp, args, kwargs, node):
    v = args[0]
    if isinstance(v, bool):
        return Fraction(int(v))
    if isinstance(v, int):
        return Fraction(v)
    if isinstance(v, Fraction):
        return v
    if ops.is_sym(v) and (z3.is_real(v) or z3.is_int(v)):
        return to_real(v)
    if v is None or isinstance(v, Opt):
        return interp.none_obligation(v, node, "float(None)")
    if isinstance(v, str):
        try:
            return Fraction(v.strip())
        except (ValueError, ZeroDivisionError):
            raise PyExc("ValueError", ("could not convert string to float",))
    return interp.externals.to_float(interp, v, node)


def _bi_int(interp, args, kwargs, node):
    v = args[0]
    if isinstance(v, Opt):
        v = interp.none_obligation(v, node, "int(None)")
    if isinstance(v, bool):
        return int(v)
    if isinstance(v, int):
        return v
    if isinstance(v, Fraction):
        return int(v)  # truncation toward zero
    if ops.is_sym(v) and z3.is_int(v):
        return v
    if isinstance(v, str):
        try:
            return int(v)
        except ValueError:
            raise PyExc("ValueError", ("invalid literal for int()",))
    return interp.externals.to_int(interp, v, node)


def _bi_abs(interp, args, kwargs, node):
    v = interp.num(args[0], node)
    if conc_number(v):
        return abs(v)
    return z3.If(v >= 0, v, -v)


def _bi_format(interp, args, kwargs, node):
    v = args[0]
    spec = args[1] if len(args) > 1 else ""
    if isinstance(v, Model) and hasattr(v, "format"):
        return v.format(interp, spec, node)
    raise Unsupported("format(%r, %r)" % (v, spec), node)


def _bi_round(interp, args, kwargs, node):
    """round(x) / round(x, n) with a literal n: some value within half a unit of the last kept digit of x (which one --
    ties, binary representation -- is not modelled, so what is proved holds for every rounding)."""
    v = interp.num(args[0], node)
    nd = args[1] if len(args) > 1 else None
    if nd is not None and not isinstance(nd, int):
        raise Unsupported("round with a symbolic number of digits", node)
    interp.ctx.assumed.add("A2:round(x, n) is within 0.5*10^-n of x (the tie rule and float representation are not modelled)")
    if nd is None:
        r = interp.ctx.int("round", record=False)
        interp.ctx.assume(z3.And(2 * ops.lift(v) - 1 <= 2 * z3.ToReal(r), 2 * z3.ToReal(r) <= 2 * ops.lift(v) + 1), definitional=True)
        return r
    half = Fraction(5, 10 ** (nd + 1)) if nd >= 0 else Fraction(5 * 10 ** (-nd - 1))
    r = interp.ctx.real("round", record=False)
    lv = ops.lift(v)
    interp.ctx.assume(z3.And(lv - z3.RealVal(str(half)) <= r, r <= lv + z3.RealVal(str(half))), definitional=True)
    return r


def _bi_minmax(is_max):
    def fn(interp, args, kwargs, node):
        vals = [interp.num(a, node) for a in (args if len(args) > 1 else interp.as_concrete_items(args[0], node))]
        cur = vals[0]
        for v in vals[1:]:
            if conc_number(cur) and conc_number(v):
                cur = max(cur, v) if is_max else min(cur, v)
            else:
                c = _cmp(v, cur, (lambda p, q: p > q) if is_max else (lambda p, q: p < q))
                a, b = v, cur
                if ops.is_sym(a) and ops.is_sym(b) and z3.is_int(a) != z3.is_int(b):
                    a, b = to_real(a), to_real(b)
                elif not ops.is_sym(a):
                    a = z3.IntVal(a) if isinstance(a, int) and ops.is_sym(b) and z3.is_int(b) else to_real(a)
                    if z3.is_real(a) and z3.is_int(b):
                        b = to_real(b)
                elif not ops.is_sym(b):
                    b = z3.IntVal(b) if isinstance(b, int) and z3.is_int(a) else to_real(b)
                    if z3.is_real(b) and z3.is_int(a):
                        a = to_real(a)
                cur = z3.If(c, a, b)
        return cur
    return fn


def _bi_str(interp, args, kwargs, node):
    v = args[0]
    if is_strlike(v):
        return v
    if ops.is_sym(v) and z3.is_int(v):
        interp.ctx.assumed.add("A2:str(int) is the decimal numeral (z3 int.to.str; non-negative integers)")
        return z3.IntToStr(v)
    if isinstance(v, bool) or v is None:
        return str(v)
    if isinstance(v, int):
        return str(v)
    if isinstance(v, Model) and hasattr(v, "to_str"):
        return v.to_str(interp)
    return mkstr([Hole(v)])


def _bi_getattr(interp, args, kwargs, node):
    obj, name = args[0], args[1]
    if isinstance(name, str):
        try:
            return interp.get_attr(obj, name, node)
        except PyExc as e:
            if e.tname == "AttributeError" and len(args) > 2:
                return args[2]
            raise
    return interp.externals.getattr_dynamic(interp, obj, name, args[2:] , node)


def _bi_dict(interp, args, kwargs, node):
    d = {}
    if args:
        a = args[0]
        if isinstance(a, PyDict):
            d.update(a.d)
        else:
            raise Unsupported("dict(%r)" % (a,), node)
    d.update(kwargs)
    r = PyDict(d)
    r.fresh = True
    return r


def _bi_list(interp, args, kwargs, node):
    if not args:
        r = PyList([])
    else:
        r = PyList(interp.as_concrete_items(args[0], node))
    r.fresh = True
    return r


def _bi_tuple(interp, args, kwargs, node):
    return tuple(interp.as_concrete_items(args[0], node)) if args else ()


def _bi_bool(interp, args, kwargs, node):
    return interp.truth_expr(args[0], node)


def _bi_type(interp, args, kwargs, node):
    v = args[0]
    if isinstance(v, Obj) and v.cls is not None:
        return ClassRef(v.cls)
    raise Unsupported("type(%r)" % (v,), node)


def _bi_bytearray(interp, args, kwargs, node):
    return interp.externals.bytearray(interp, args[0], node)


def _bi_sorted(interp, args, kwargs, node):
    raise Unsupported("sorted", node)


def _bi_enumerate(interp, args, kwargs, node):
    if len(args) != 1 or kwargs:
        raise Unsupported("enumerate with a start value", node)
    it = interp.as_iterable(args[0], node)
    if isinstance(it, list):
        r = PyList([(i, x) for i, x in enumerate(it)])
        r.fresh = True
        return r
    return SymSeq(it.length, lambda k: (k, it.get(k)), name="enumerate(%s)" % it.name)


def _bi_anyall(is_any):
    def fn(interp, args, kwargs, node):
        seq = args[0]
        if isinstance(seq, SymSeq):
            # uniform element: decide from one arbitrary index
            k = interp.ctx.int("anyall.k", record=False)
            e = interp.truth_expr(seq.get(k), node)
            c = e if isinstance(e, bool) else as_const_bool(e)
            if c is None:
                raise Unsupported("%s() over a symbolic sequence with non-constant elements" % ("any" if is_any else "all"), node)
            n = seq.length
            nonempty = (n > 0)
            if is_any:
                return nonempty if c else False
            return True if c else (n == 0 if isinstance(n, int) else ops.Not(nonempty))
        items = interp.as_concrete_items(seq, node)
        vals = [interp.truth_expr(v, node) for v in items]
        if is_any:
            return ops.Or(*vals) if vals else False
        return ops.And(*vals) if vals else True
    return fn


BUILTINS = {
    "len": _Builtin("len", _bi_len),
    "range": _Builtin("range", _bi_range),
    "isinstance": _Builtin("isinstance", _bi_isinstance),
    "float": _Builtin("float", _bi_float),
    "int": _Builtin("int", _bi_int),
    "abs": _Builtin("abs", _bi_abs),
    "round": _Builtin("round", _bi_round),
    "format": _Builtin("format", _bi_format),
    "str": _Builtin("str", _bi_str),
    "getattr": _Builtin("getattr", _bi_getattr),
    "dict": _Builtin("dict", _bi_dict),
    "list": _Builtin("list", _bi_list),
    "tuple": _Builtin("tuple", _bi_tuple),
    "bool": _Builtin("bool", _bi_bool),
    "type": _Builtin("type", _bi_type),
    "bytearray": _Builtin("bytearray", _bi_bytearray),
    "sorted": _Builtin("sorted", _bi_sorted),
    "enumerate": _Builtin("enumerate", _bi_enumerate),
    "any": _Builtin("any", _bi_anyall(True)),
    "all": _Builtin("all", _bi_anyall(False)),
    "max": _Builtin("max", _bi_minmax(True)),
    "min": _Builtin("min", _bi_minmax(False)),
    "object": ExtClass("object"),
    "True": True, "False": False, "None": None,
}


def _call_builtin_method(interp, bm, args, kwargs, node):
    return interp.call_method(bm.base, bm.name, args, kwargs, node)


# allow calling of _BuiltinMethod values (e.g. m = lst.append ; m(x))
_orig_call_value = Interp.call_value


def _call_value(self, fn, args, kwargs, node=None):
    if isinstance(fn, _BuiltinMethod):
        return _call_builtin_method(self, fn, args, kwargs, node)
    if isinstance(fn, _Unbound):
        return self.invoke(fn.finfo, args[0], args[1:], kwargs, node)
    return _orig_call_value(self, fn, args, kwargs, node)


Interp.call_value = _call_value

"""math.atan2 / cos / sin for the executor (assumption A2): applications are kept as uninterpreted function
applications; each call adds the defining facts for exactly the terms that occur."""
import z3

from . import ops
from .values import to_real, conc_number, Unsupported
from .stubs import PI, PI_BOUNDS


class Trig(object):
    def call(self, interp, name, args, node):
        ctx = interp.ctx
        if name in ("cos", "sin"):
            t = to_real(interp.num(args[0], node))
            ctx.assumed.add("A2:math.cos/math.sin are uninterpreted with cos^2+sin^2=1 (further identities only as explicit instances)")
            ctx.assume(ops.trig_pythagoras(t), definitional=True)
            return ops.Cos(t) if name == "cos" else ops.Sin(t)
        if name == "atan2":
            y = to_real(interp.num(args[0], node))
            x = to_real(interp.num(args[1], node))
            ctx.assumed.add("A2:math.atan2(y,x)=t => -pi<t<=pi, x=r*cos t, y=r*sin t with r=hypot(x,y); atan2(0,0)=0")
            t = ctx.real("atan2", record=False)
            r = ctx.real("atan2.r", record=False)
            ctx.assume(PI_BOUNDS, definitional=True)
            ctx.assume(z3.And(t > -PI, t <= PI, r >= 0, r * r == x * x + y * y, x == r * ops.Cos(t), y == r * ops.Sin(t),
                              ops.trig_pythagoras(t), z3.Implies(z3.And(x == 0, y == 0), t == 0),
                              # quadrant facts (consequences of the range of atan2)
                              z3.Implies(z3.And(y == 0, x > 0), t == 0),
                              z3.Implies(y > 0, t > 0), z3.Implies(y < 0, t < 0),
                              z3.Implies(z3.And(y == 0, x < 0), t == PI)), definitional=True)
            ctx.ghost.setdefault("atan2", []).append({"y": y, "x": x, "t": t, "r": r})
            return t
        raise Unsupported("math.%s" % name, node)

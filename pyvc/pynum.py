"""Assumed contracts of the CPython builtins that formatNumber rests on (A2), used only when formatNumber itself is the
function under contract (callers see it through its summary):

  str(x), x a finite float : a text in  -?D+.D+  |  -?D(.D+)?e[-+]DD+   ('inf'/'nan' are outside A1), denoting x
  str(n), n an int         : -?D+ , denoting n
  Decimal(t)               : raises InvalidOperation unless t is a decimal literal; denotes the same number as t
  format(d, 'f'), d Decimal: a text in -?D+(.D+)? (never an exponent), denoting the same number

'denotes' is an uninterpreted function text -> real (DecVal); only the equalities above are known about it."""
import z3

from .values import Model, Unsupported, next_oid

D = z3.Range("0", "9")
SIGN = z3.Option(z3.Re("-"))
DIGITS = z3.Plus(D)
PLAIN_FLOAT = z3.Concat(SIGN, DIGITS, z3.Re("."), DIGITS)
EXP_FLOAT = z3.Concat(SIGN, D, z3.Option(z3.Concat(z3.Re("."), DIGITS)), z3.Re("e"), z3.Union(z3.Re("-"), z3.Re("+")), D, DIGITS)
INT_TEXT = z3.Concat(SIGN, DIGITS)
PLAIN = z3.Concat(SIGN, DIGITS, z3.Option(z3.Concat(z3.Re("."), DIGITS)))
DEC_LITERAL = z3.Concat(z3.Option(z3.Union(z3.Re("-"), z3.Re("+"))),
                        z3.Union(z3.Concat(DIGITS, z3.Option(z3.Concat(z3.Re("."), z3.Star(D)))), z3.Concat(z3.Re("."), DIGITS)),
                        z3.Option(z3.Concat(z3.Union(z3.Re("e"), z3.Re("E")), z3.Option(z3.Union(z3.Re("-"), z3.Re("+"))), DIGITS)))
DecVal = z3.Function("text.denotes", z3.StringSort(), z3.RealSort())


class PyNum(Model):
    """A Python number whose run-time type matters (isinstance(value, float)) and whose str() is axiomatised."""

    def __init__(self, pytype, term):
        self.pytype = pytype          # 'float' | 'int'
        self.term = term
        self.clsname = pytype
        self.oid = next_oid()

    def to_str(self, interp):
        ctx = interp.ctx
        t = ctx.string("str(%s)" % self.pytype, record=False)
        lang = z3.Union(PLAIN_FLOAT, EXP_FLOAT) if self.pytype == "float" else INT_TEXT
        ctx.assumed.add("A2:str(float) is a plain decimal or d.ddde[+-]dd text denoting the float; str(int) its decimal numeral")
        ctx.assume(z3.And(z3.InRe(t, lang), DecVal(t) == (z3.ToReal(self.term) if z3.is_int(self.term) else self.term)),
                   definitional=True)
        return t

    def copy(self, memo=None):
        return self

    def struct_eq(self, other):
        return self is other


class PyDecimal(Model):
    clsname = "Decimal"

    def __init__(self, text):
        self.text = text
        self.oid = next_oid()

    def format(self, interp, spec, node):
        if spec != "f":
            raise Unsupported("format(Decimal, %r)" % (spec,), node)
        ctx = interp.ctx
        r = ctx.string("format(Decimal,'f')", record=False)
        ctx.assumed.add("A2:format(Decimal(t), 'f') is a plain decimal text (no exponent) denoting the same number as t")
        ctx.assume(z3.And(z3.InRe(r, PLAIN), DecVal(r) == DecVal(self.text)), definitional=True)
        return r

    def copy(self, memo=None):
        return self

    def struct_eq(self, other):
        return self is other


def decimal_of(interp, text, node):
    from . import ops
    from .values import is_symstr
    if not (is_symstr(text) or isinstance(text, str)):
        raise Unsupported("Decimal(%r)" % (text,), node)
    t = ops.lift(text)
    ctx = interp.ctx
    name = "%s/no-raise:InvalidOperation@L%s" % (ctx.fn_stack[-1] if ctx.fn_stack else "?", getattr(node, "lineno", "?"))
    ctx.assumed.add("A2:Decimal(t) raises InvalidOperation unless t is a decimal literal")
    ctx.oblige(name, z3.InRe(t, DEC_LITERAL), {"implicit": "decimal.InvalidOperation"}, kind="implicit")
    return PyDecimal(t)

"""Call-site view of the G-code parser for the handlers (assumption A2/C19): `parse(cmd)` makes the parser
hold the command, `parameterItems()` yields the abstract item sequence of that command (pyvc.gitems).
The parser itself is verified/bounded-checked under C18/C19."""
from pyvc.contracts import contract


def mk_parser(b):
    """A GcodeParser object in an arbitrary prior state (every field is overwritten by parse())."""
    return b.new("GcodeParser", _src=b.opaque("parser state before parse()"))


def line_fns():
    import z3
    S = z3.StringSort()
    return {"eol": z3.Function("line.eol", S, S), "text": z3.Function("line.text", S, S),
            "type_none": z3.Function("line.type_is_none", S, z3.BoolSort()), "type": z3.Function("line.type", S, S),
            "gcode": z3.Function("line.gcode", S, S), "sub_none": z3.Function("line.subcode_is_none", S, z3.BoolSort()),
            "sub": z3.Function("line.subcode", S, z3.IntSort()), "norm": z3.Function("line.normalised", S, S)}


def set_line_fields(interp, p, src):
    """Abstract view of a parsed line: eol / text / type / gcode / subCode are (uninterpreted) functions of the source
    line; gcode is present exactly when the type is."""
    from pyvc.stubs import sstr_to_z3
    from pyvc.values import Opt
    z = sstr_to_z3(src)
    if z is None:
        return
    F = line_fns()
    p.fields["source"] = src
    p.fields["eol"] = F["eol"](z)
    p.fields["text"] = F["text"](z)
    p.fields["_type"] = Opt(F["type_none"](z), F["type"](z))
    p.fields["_gcode"] = Opt(F["type_none"](z), F["gcode"](z))
    p.fields["_subCode"] = Opt(F["sub_none"](z), F["sub"](z))


@contract("GcodeParser.GcodeParser.stringify")
def _(c):
    def summary(f):
        from pyvc.stubs import sstr_to_z3
        from pyvc.values import Unsupported
        src = f.self.fields.get("source")
        z = sstr_to_z3(src) if src is not None else None
        if z is None:
            raise Unsupported("stringify on a parser whose source is not known")
        f.interp.ctx.assumed.add("A2:stringify(includeLineNumber=False, includeComment=False, includeEol=False) is the normalised "
                                 "command of the line (opaque function of the line; its stability is judged by C18)")
        return line_fns()["norm"](z)
    c.summary(summary)
    c.use_modular()


@contract("GcodeParser.GcodeParser.parse")
def _(c):
    def summary(f):
        p = f.self
        src = f.a.source
        if src is None:
            from pyvc.values import Unsupported
            raise Unsupported("parse() continuing in the current source is not part of the handler-side view")
        f.interp.ctx.assumed.add("A2:GcodeParser.parse(cmd) + parameterItems() yield the (letter, value) items of cmd "
                                 "(abstract items; the parser is checked against an RS274 reader under C19)")
        f.interp.ctx.log_write(p, "*")
        p.fields["_src"] = src
        set_line_fields(f.interp, p, src)
        return p
    c.summary(summary)
    c.use_modular()
    c.force_modular = True


@contract("GcodeParser.GcodeParser.parameterItems")
def _(c):
    def summary(f):
        from pyvc import gitems
        from pyvc.values import Unsupported
        from pyvc.stubs import sstr_to_z3
        if f.a.source is not None:
            raise Unsupported("parameterItems(source) is not part of the handler-side view")
        src = f.self.fields.get("_src")
        if isinstance(src, str):
            # concrete command (engine self-check): read the words with the independent RS274 reader
            from spec import rs274
            from pyvc.values import PyList
            code, params = rs274.command_of(rs274.words(src))
            out = PyList([(l, v) for (l, v) in params if l != "?"])
            out.fresh = True
            return out
        z = sstr_to_z3(src)
        if z is None:
            raise Unsupported("parameterItems of a formatted command")
        return gitems.items_of(z)
    c.summary(summary)
    c.use_modular()
    c.force_modular = True

#!/usr/bin/env python3
"""Generates MANIFEST.json from props/*.py (kept valid at all times)."""
import importlib
import json
import os
import sys

sys.path.insert(0, os.path.dirname(os.path.abspath(__file__)))
ALL = ["C%02d" % i for i in range(1, 21)]
PENDING_REASON = "check not registered yet: its contracts are still being built in this repository (see DESIGN.md section 5); not a claim that the technique cannot apply"

checks = []
na = []
for pid in ALL:
    try:
        prop = importlib.import_module("props." + pid)
    except ImportError:
        na.append({"property_id": pid, "reason": PENDING_REASON})
        continue
    if getattr(prop, "NOT_APPLICABLE", None):
        na.append({"property_id": pid, "reason": prop.NOT_APPLICABLE})
        continue
    checks.append({
        "property_id": pid,
        "quick_cmd": "./check %s" % pid,
        "thorough_cmd": "./check %s --tier thorough" % pid,
        "evidence_file": "/verif/evidence/%s.json" % pid,
        "replay_cmd_template": "./check %s --replay {path}" % pid,
        "engine": "pyvc",
        "level_claimed": {"category": prop.LEVEL, "text": prop.EXPLANATION, "design_ref": "DESIGN.md section 5 (%s)" % pid},
        "level_note": getattr(prop, "LEVEL_NOTE", "assumptions " + ", ".join(getattr(prop, "ASSUMPTIONS", [])) +
                              " of DESIGN.md 2.2; the pyvc executor's Python semantics (cross-checked by seeded breakers every run)"),
        "technique": getattr(prop, "TECHNIQUE", "contracts on the real functions; VCs generated from /repo's AST by symbolic execution; discharged by z3 (cvc5 fallback); counter-models replayed on the real code"),
    })
m = {
    "version": 1,
    "setup_cmd": "python3-vt -c \"import z3; print('z3', z3.get_version_string())\"",
    "hooks": {"guard": "EXCLUDEREGION_VERIF",
              "enable": "no hooks: contracts are sidecar files in /verif/contracts; the verifier re-reads /repo's AST on every run",
              "baseline_off_cmd": "cd /repo && /venv/bin/python -m pytest -ra -q -p no:cacheprovider --timeout=900 --continue-on-collection-errors",
              "source_commits": [], "add_only": True},
    "engines": [{"name": "pyvc", "path": "/verif/pyvc", "serves_properties": [c["property_id"] for c in checks],
                 "kind_free_text": "contract-based deductive verifier for a Python subset: symbolic execution of /repo's AST against sidecar contracts (pre/post/frame/loop invariants/ghost state, modular callee contracts, opaque spec functions), VCs discharged by z3 5.1 with cvc5 as second back end, counter-models replayed on the real code under /venv/bin/python"}],
    "checks": checks,
    "not_applicable": na,
    "notes": "exit codes of ./check: 0 all obligations discharged; 1 VIOLATION (refuted obligation, replayed natively); 2 undecided (solver unknown / unsupported construct); 3 checker error (vacuity guard, undetected seeded breaker, crash)",
}
json.dump(m, open(os.path.join(os.path.dirname(os.path.abspath(__file__)), "MANIFEST.json"), "w"), indent=1)
print("checks:", [c["property_id"] for c in checks])

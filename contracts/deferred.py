"""Contracts for the deferred-command table (C06): _processExtendedGcodeEntry, processExtendedGcode,
_processPendingCommands."""
from pyvc.contracts import contract, REGISTRY
from pyvc import ops
from pyvc.ops import And, Or, Not, Implies, Iff, If, eq, is_none, val, ForAll, Exists, str_eq
from spec import deferred as D
from contracts.motion import mk_motion_state, S
from contracts.parserstub import mk_parser

MODES = ("exclude", "first", "last", "merge")


def symbolic(om):
    return hasattr(om, "view")


def z3mod():
    import z3
    return z3


# ------------------------------------------------------------------------------------------ view relations (symbolic)
def entries_kept_before(w, o, upto):
    """forall q < upto: entry(w, q) == entry(o, q)."""
    z3 = z3mod()
    from pyvc.ordmap import Entry, entry_eq
    q = z3.Int("q!kept")
    return z3.ForAll([q], z3.Implies(z3.And(q >= 0, q < upto), entry_eq(Entry(w, q), Entry(o, q))))


def entries_shifted(w, o, j, count):
    """forall q < count: entry(w, q) == entry(o, q if q < j else q + 1)   (entry j of o removed)."""
    z3 = z3mod()
    from pyvc.ordmap import Entry, entry_eq
    q = z3.Int("q!shift")
    return z3.ForAll([q], z3.Implies(z3.And(q >= 0, q < count), entry_eq(Entry(w, q), Entry(o, z3.If(q < j, q, q + 1)))))


def last_is_string(w, k, cmd):
    z3 = z3mod()
    from pyvc.ordmap import Entry
    e = Entry(w, w.n - 1)
    return z3.And(e.key == k, z3.Not(e.is_map), e.sval == ops.lift(cmd))


def merged_args(old_args, src, nitems):
    """(has, none, val) characterised letter by letter: overwrite(old, items[:nitems])."""
    from pyvc import gitems
    z3 = z3mod()
    h0, n0, v0 = old_args

    def has(L):
        return z3.Or(z3.Select(h0, L), gitems.LastIdx(src, L, nitems) >= 0)

    def none(L):
        i = gitems.LastIdx(src, L, nitems)
        return z3.If(i >= 0, gitems.ItemsNone(src, i), z3.Select(n0, L))

    def value(L):
        i = gitems.LastIdx(src, L, nitems)
        return z3.If(i >= 0, gitems.ItemsVal(src, i), z3.Select(v0, L))
    return has, none, value


def args_are(args, spec_fns):
    """The argument map equals the letter-wise specification."""
    z3 = z3mod()
    h, n, v = args
    has, none, value = spec_fns
    L = z3.Int("L!args")
    return z3.ForAll([L], z3.And(z3.Select(h, L) == has(L),
                                 z3.Implies(has(L), z3.And(z3.Select(n, L) == none(L),
                                                           z3.Implies(z3.Not(none(L)), z3.Select(v, L) == value(L))))))


def last_is_merged(w, k, old_args, src):
    from pyvc import gitems
    from pyvc.ordmap import Entry
    z3 = z3mod()
    e = Entry(w, w.n - 1)
    return z3.And(e.key == k, e.is_map, args_are(e.args, merged_args(old_args, src, gitems.ItemsLen(src))))


def entry_spec(f):
    """C06, per mode, over the WHOLE table view."""
    old, new = f.old.self.pendingCommands, f.self.pendingCommands
    mode, cmd, gcode = f.a.mode, f.a.cmd, f.a.gcode
    if not symbolic(new):      # native replay
        return D.native_same(new, D.expected_after(old, mode, cmd, gcode))
    z3 = z3mod()
    from pyvc.ordmap import same_map, Entry, empty_argmap_arrays
    o, w = old.view(), new.view()
    k = ops.lift(gcode)
    if mode == "exclude":
        return same_map(w, o)
    look = new.lookups
    if not look:
        return False
    found, j = look[0][2], look[0][3]
    if mode == "first":
        return z3.If(found, same_map(w, o),
                     z3.And(w.n == o.n + 1, entries_kept_before(w, o, o.n), last_is_string(w, k, cmd)))
    tail = last_is_string(w, k, cmd) if mode == "last" else \
        last_is_merged(w, k, _old_args(o, found, j), ops.lift(cmd))
    return z3.If(found, z3.And(w.n == o.n, entries_shifted(w, o, j, o.n - 1), tail),
                 z3.And(w.n == o.n + 1, entries_kept_before(w, o, o.n), tail))


def _old_args(o, found, j):
    z3 = z3mod()
    from pyvc.ordmap import Entry, empty_argmap_arrays
    e = Entry(o, j)
    eh, en, ev = empty_argmap_arrays()
    h, n, v = e.args
    return (z3.If(found, h, eh), z3.If(found, n, en), z3.If(found, v, ev))


def keys_distinct(om):
    if not symbolic(om):
        return True
    from pyvc.ordmap import distinct_keys
    return distinct_keys(om.view())


def kind_consistent(f):
    """Configuration is stable during an episode: an entry stored for a merge-mode code is an argument map."""
    om = f.self.pendingCommands
    if not symbolic(om) or f.a.mode != "merge":
        return True
    z3 = z3mod()
    v = om.view()
    q = z3.Int("q!kind")
    return z3.ForAll([q], z3.Implies(z3.And(q >= 0, q < v.n, z3.Select(v.key, q) == ops.lift(f.a.gcode)), z3.Select(v.is_map, q)))


def letters_only(f):
    """Merge-mode commands consist of letter/number words (no free-text argument)."""
    if f.a.mode != "merge" or isinstance(f.a.cmd, str):
        return True
    from pyvc import gitems
    z3 = z3mod()
    src = ops.lift(f.a.cmd)
    return ForAll(0, gitems.ItemsLen(src), lambda i: gitems.ItemsLabel(src, i) != 0)


@contract(S + "_processExtendedGcodeEntry")
def _(c):
    def pre(b):
        st = mk_motion_state(b, position="opaque", lastRetraction="opaque", lastPosition="opaque", enter="opaque", exit="opaque")
        st.gcodeParser = mk_parser(b)
        mode = MODES[b.choose(4, "mode")]
        return {"self": st, "args": {"mode": mode, "cmd": b.gcode_command("cmd", code="M204"), "gcode": b.string("gcode")}}
    c.pre(pre)
    c.requires("keys-distinct", lambda f: keys_distinct(f.self.pendingCommands))
    c.requires("kind-consistent", kind_consistent)
    c.requires("merge-commands-are-letter-number-words", letters_only)
    c.modifies("self.pendingCommands.*", "self.numExcludedCommands", "self.gcodeParser.*")

    def loop_inv(L, k):
        """pendingArgs == overwrite(args at loop entry, items[:k])."""
        om_old = L.f.old.self.pendingCommands.view()
        look = L.self.pendingCommands.lookups
        found, j = look[0][2], look[0][3]
        pa = L.pendingArgs
        return args_are((pa.has, pa.none, pa.val), merged_args(_old_args(om_old, found, j), ops.lift(L.cmd), k))
    c.loop(0, invariant=loop_inv, havoc_fields=["pendingArgs.has", "pendingArgs.none", "pendingArgs.val"], scratch=["label", "value"])
    c.ensures("C06.deferral-per-mode", entry_spec, props=("C06",))
    c.ensures("C06.returns-ignore", lambda f: isinstance(f.result, tuple) and len(f.result) == 1 and f.result[0] is None, props=("C06", "C09"))
    c.ensures("keys-distinct-preserved", lambda f: keys_distinct(f.self.pendingCommands), props=("C06",))


# ------------------------------------------------------------------------------------------ flushing
def render_fn():
    z3 = z3mod()
    I, B, R, Sx = z3.IntSort(), z3.BoolSort(), z3.RealSort(), z3.StringSort()
    return z3.Function("gcode.render", Sx, z3.ArraySort(I, B), z3.ArraySort(I, B), z3.ArraySort(I, R), Sx)


def rendered(view, i):
    """The command emitted for entry i: buildCommand(key, **args) for argument maps, the stored string otherwise."""
    z3 = z3mod()
    from pyvc.ordmap import Entry
    e = Entry(view, i)
    h, n, v = e.args
    return z3.If(e.is_map, render_fn()(e.key, h, n, v), e.sval)


@contract("GcodeParser.GcodeParser.buildCommand")
def _(c):
    def summary(f):
        from pyvc.stubs import sstr_to_z3
        from pyvc.values import Unsupported
        kw = f.a.kwargs.d if hasattr(f.a.kwargs, "d") else f.a.kwargs
        am = kw.get("**")
        if am is None or len(kw) != 1:
            # explicit keyword arguments (not used by the unchanged code): what buildCommand's own contract proves for 0..3
            # parameters -- the code, then each letter in order carrying exactly its value rendered by formatNumber (a
            # 'plain' hole), or the bare letter for None
            from pyvc.values import Hole, mkstr, Opt, is_number
            if "**" in kw or not isinstance(f.a.gcode, str) or len(kw) > 3 or not all(isinstance(k, str) and len(k) == 1 for k in kw):
                raise Unsupported("buildCommand with these keyword arguments")
            f.interp.ctx.assumed.add("A2:GcodeParser.buildCommand(code, L=v, ...) renders the code and each letter with its value "
                                     "through formatNumber (its own contract C06.merged-command-reads-back-as-its-arguments, 0..3 parameters)")
            f.interp.ctx.log_write(f.self, "*")
            parts = [f.a.gcode]
            for k, v in kw.items():
                parts.append(" " + k)
                if isinstance(v, Opt):
                    if f.interp.truth(v.isnone, None):
                        continue
                    v = v.val
                if v is None:
                    continue
                if not is_number(v):
                    raise Unsupported("buildCommand with a non-numeric argument")
                parts.append(Hole(v, plain=True))
            return mkstr(parts)
        f.interp.ctx.assumed.add("A2:GcodeParser.buildCommand(gcode, **args) is an opaque rendering of (gcode, args); its format is judged by C07")
        f.interp.ctx.log_write(f.self, "*")
        return render_fn()(sstr_to_z3(f.a.gcode), am.has, am.none, am.val)
    c.summary(summary)
    c.use_modular()


def strseq(result):
    """(length, element function) of a list of command strings in any of the executor's representations."""
    z3 = z3mod()
    from pyvc.stubs import sstr_to_z3
    if hasattr(result, "arr"):           # GrowList
        return result.n, (lambda i: z3.Select(result.arr, i))
    if hasattr(result, "getter"):        # a symbolic sequence returned as is
        return result.length, result.get
    items = list(result.items) if hasattr(result, "items") else list(result)
    plain = [it for it in items if not hasattr(it, "seq")]
    splices = [it for it in items if hasattr(it, "seq")]
    if len(splices) > 1 or (splices and items[-1] is not splices[0]):
        raise NotImplementedError("rope shape")
    k = len(plain)
    zs = [sstr_to_z3(p) for p in plain]
    if not splices:
        def get(i):
            r = z3.StringVal("")
            for idx in range(k - 1, -1, -1):
                r = z3.If(i == idx, zs[idx], r)
            return r
        return z3.IntVal(k), get
    sq = splices[0].seq

    def get2(i):
        r = sq.get(i - k)
        for idx in range(k - 1, -1, -1):
            r = z3.If(i == idx, zs[idx], r)
        return r
    return k + sq.length, get2


def flush_spec(f):
    """Result = one command per entry, in insertion order, followed by the exit script; the table is emptied."""
    old, new = f.old.self.pendingCommands, f.self.pendingCommands
    script = f.old.self.exitingExcludedRegionGcode
    if not symbolic(new):       # native
        exp = []
        for k, v in old.items():
            exp.append(None if isinstance(v, dict) else v)
        res = list(f.result)
        ok = len(new) == 0 and len(res) == len(exp) + (len(script) if script else 0)
        for a, b in zip(res, exp):
            ok = ok and (b is None or a == b)
        if script:
            ok = ok and res[len(exp):] == list(script)
        return ok
    z3 = z3mod()
    o = old.view()
    n, get = strseq(f.result)
    m = script.length if script is not None else 0
    q = z3.Int("q!flush")
    conds = [new.view().n == 0, n == o.n + m,
             z3.ForAll([q], z3.Implies(z3.And(q >= 0, q < o.n), get(q) == rendered(o, q)))]
    if script is not None:
        conds.append(z3.ForAll([q], z3.Implies(z3.And(q >= 0, q < m), get(o.n + q) == script.get(q))))
    return z3.And(*conds)


def _flush_contract():
    c = REGISTRY.get(S + "_processPendingCommands")

    def pre(b):
        st = mk_motion_state(b, position="opaque", lastRetraction="opaque", lastPosition="opaque", enter="opaque")
        st.gcodeParser = mk_parser(b)
        return {"self": st, "args": {}}
    c.pre(pre)
    c.modifies("self.pendingCommands.*", "self.gcodeParser.*")

    def mk_cmdlist(ctx):
        import z3
        from pyvc.growlist import GrowList
        return GrowList.symbolic(ctx, "returnCommands", sort=z3.StringSort())

    def inv(L, k):
        z3 = z3mod()
        o = L.f.old.self.pendingCommands.view()
        n, get = strseq(L.returnCommands)
        q = z3.Int("q!inv")
        from pyvc.ordmap import same_map
        return z3.And(n == k, z3.ForAll([q], z3.Implies(z3.And(q >= 0, q < k), get(q) == rendered(o, q))),
                      same_map(L.self.pendingCommands.view(), o))
    c.loop(0, invariant=inv, havoc={"returnCommands": mk_cmdlist}, havoc_fields=["self.gcodeParser.*"], scratch=["gcode", "cmdArgs"])
    c.ensures("C06.flush-in-order-then-exit-script", flush_spec, props=("C06", "C15"))

    def fresh_list(f):
        """The caller appends the re-synchronisation commands to the returned list, so it must be a new list -- never the
        configured script object itself (which would grow with every episode)."""
        scripts = (f.self.exitingExcludedRegionGcode, f.self.enteringExcludedRegionGcode)
        return all(f.result is not s_ for s_ in scripts if s_ is not None)
    c.ensures("C06.result-does-not-alias-the-configured-script", fresh_list, props=("C06", "C10", "C15", "C05", "C04"))


_flush_contract()


# ------------------------------------------------------------------------------------------ processExtendedGcode
def _extended_contract():
    c = REGISTRY.get(S + "processExtendedGcode")

    def pre(b):
        st = mk_motion_state(b, position="opaque", lastRetraction="opaque", lastPosition="opaque", enter="opaque", exit="opaque")
        st.gcodeParser = mk_parser(b)
        st.extendedExcludeGcodes = b.gcode_table()
        k = b.choose(3, "gcode")
        gcode = [None, "", b.string("gcode")][k]
        return {"self": st, "args": {"cmd": b.gcode_command("cmd", code="M204"), "gcode": gcode, "subcode": None}}
    c.pre(pre)
    c.requires("keys-distinct", lambda f: keys_distinct(f.self.pendingCommands))
    c.requires("merge-commands-are-letter-number-words", lambda f: letters_only_cmd(f.a.cmd))
    c.requires("kind-consistent", lambda f: all_kinds_consistent(f))

    def post(f):
        """Outside an episode, or for codes that are not configured, the command passes (None) and nothing is written;
        otherwise it is withheld (IGNORE_GCODE_CMD) and deferred according to its configured mode."""
        if f.result is None:
            return f.unchanged()
        withheld = isinstance(f.result, tuple) and len(f.result) == 1 and f.result[0] is None
        return And(withheld, f.old.self.excluding, f.a.gcode is not None)
    c.ensures("C06.only-configured-codes-inside-an-episode-are-withheld", post, props=("C06", "C02", "C09"))
    c.ensures("C02.passes-outside-episodes", lambda f: Implies(Not(f.old.self.excluding), And(f.result is None, f.unchanged())),
              props=("C02", "C06"))
    c.ensures("keys-distinct-preserved", lambda f: keys_distinct(f.self.pendingCommands), props=("C06",))


def letters_only_cmd(cmd):
    if isinstance(cmd, str):
        return True
    from pyvc import gitems
    src = ops.lift(cmd)
    return ForAll(0, gitems.ItemsLen(src), lambda i: gitems.ItemsLabel(src, i) != 0)


def all_kinds_consistent(f):
    """(see kind_consistent) for whatever mode the configuration assigns: entries stored under this code by an
    earlier merge are argument maps -- stated for every entry with this key."""
    om = f.self.pendingCommands
    if not symbolic(om) or f.a.gcode is None or f.a.gcode == "":
        return True
    z3 = z3mod()
    v = om.view()
    q = z3.Int("q!kind2")
    merge = f.self.extendedExcludeGcodes.mode == z3.StringVal("merge")
    return z3.Implies(merge, z3.ForAll([q], z3.Implies(z3.And(q >= 0, q < v.n, z3.Select(v.key, q) == ops.lift(f.a.gcode)),
                                                        z3.Select(v.is_map, q))))


_extended_contract()


def deferred_domain(st, cmd, gcode):
    """Invariant / domain of the deferred-command table that callers of processExtendedGcode must provide:
    distinct keys (data-structure invariant), stable configuration (merge entries are argument maps) and
    letter/number words for merge-mode commands."""
    class _F(object):
        pass
    f = _F()
    f.self = st
    f.a = _F()
    f.a.cmd, f.a.gcode = cmd, gcode
    return And(keys_distinct(st.pendingCommands), letters_only_cmd(cmd), all_kinds_consistent(f))

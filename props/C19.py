from props.common import *
from props.boundedrun import script
ID = "C19"
LEVEL = "other"
TAGS = ("C19",)
CONTRACT_MODULES = ALL_CONTRACTS
FUNCTIONS = [H + "_handle_" + c for c in ("G0", "G1", "G2", "G3", "G28", "G92", "G10")] + [H + "handleGcode"] + ["GcodeParser.GcodeParser._updateParameters"]
ASSUMPTIONS = ["A1", "A2", "A4"]
BOUNDED = [script("param_items.py")]
EXPLANATION = ("Handler half (deductive, for item sequences of ANY length): loop invariants prove that G0/G1/G2/G3/G92 act on the LAST "
               "value given for each letter (recursive spec function last(items, k, L)), ignore valueless words, and that G28/G10 react "
               "to the presence of a letter. Parser half (parameterItems vs. an independent RS274 reader) depends on the regex engine's "
               "backtracking/priorities, which a contract on the pattern cannot express: it is a BOUNDED exhaustive comparison on word "
               "sequences of bounded length (coverage.bounded), labelled bounded and not counted under obligations/discharged.")
TECHNIQUE = "contracts + loop invariants over symbolic item sequences (z3) for the handlers; bounded exhaustive comparison with an RS274 reader for the tokeniser"
BREAKERS = [
    {"module": "GcodeHandlers", "old": "                elif (label == \"X\"):\n                    x = value\n                elif (label == \"Y\"):\n                    y = value\n                elif (label == \"Z\"):\n                    z = value\n\n        return self.state.processLinearMoves",
     "new": "                elif (label == \"X\" and x is None):\n                    x = value\n                elif (label == \"Y\"):\n                    y = value\n                elif (label == \"Z\"):\n                    z = value\n\n        return self.state.processLinearMoves",
     "desc": "G0/G1 act on the FIRST X word", "functions": [H + "_handle_G0"]},
    {"module": "GcodeHandlers", "old": "                elif (label == \"J\"):\n                    j = value", "new": "                elif (label == \"J\"):\n                    i = value",
     "desc": "J word stored as I", "functions": [H + "_handle_G2"]},
]

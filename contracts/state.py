"""Pre-state builder for ExcludeRegionState and contracts of the region registry
(getRegion/addRegion/deleteRegion/replaceRegion/isPointExcluded) -- C13, C12, C01."""
from pyvc.contracts import contract
from pyvc import ops
from pyvc.ops import And, Or, Not, Implies, Iff, If, eq, is_none, val, ForAll, Exists, str_eq
from spec import geometry as G
from spec import registry as R
from spec import axis as A
from contracts.axis import mk_axis, mk_position
from contracts.geometry import mk_rect, mk_circle


def mk_regions(b, name="regions"):
    if b.native:
        return b.native_regions(name)
    from pyvc.regions import RegionList
    return RegionList.symbolic(b.ctx, b.interp.program, name)


def mk_region_arg(b, name):
    k = b.choose(2, "region type")
    return mk_rect(b, name) if k == 0 else mk_circle(b, name)


def mk_retraction(b, name):
    fw = b.bool(name + ".firmwareRetract")
    return b.new("RetractionState", recoverExcluded=b.bool(name + ".recoverExcluded"),
                 allowCombine=b.bool(name + ".allowCombine"), firmwareRetract=fw,
                 extrusionAmount=b.optreal(name + ".extrusionAmount"), feedRate=b.optreal(name + ".feedRate"),
                 originalCommand=b.string(name + ".originalCommand"))


def _shape(b, o, key, name, maker):
    """'opaque' (default): the function must not read it; 'any': None or a value; 'none'; 'some'."""
    mode = o.get(key, "opaque")
    if mode == "opaque":
        if key == "parser" and getattr(b, "native", False):
            return b.new("GcodeParser")      # native replay: the real code below the summaries needs a real parser
        if key in ("atcommands", "extended") and getattr(b, "native", False):
            return {}                        # native replay: an empty configuration table instead of "not read"
        return b.opaque(name)
    if mode == "none":
        return None
    if mode == "some":
        return maker()
    if mode == "any":
        if o.get("_kind_" + key) == "script":
            return b.lazy(name, [lambda: None, maker])
        return b.optobj(name, maker())
    return mode   # explicit value


def mk_state(b, minimal=False, **o):
    """An arbitrary ExcludeRegionState.  Scalar fields are symbolic; structured fields are 'opaque'
    unless the contract asks for them (see _shape)."""
    fields = dict(
        _logger=b.logger(),
        g90InfluencesExtruder=b.bool("g90InfluencesExtruder"),
        excludedRegions=o.get("regions") if "regions" in o else mk_regions(b),
    )
    if minimal:
        return b.new("ExcludeRegionState", **fields)
    fields.update(
        enteringExcludedRegionGcode=_shape(b, dict(o, _kind_enter="script"), "enter", "enteringExcludedRegionGcode", lambda: b.script("enterScript")),
        exitingExcludedRegionGcode=_shape(b, dict(o, _kind_exit="script"), "exit", "exitingExcludedRegionGcode", lambda: b.script("exitScript")),
        extendedExcludeGcodes=_shape(b, o, "extended", "extendedExcludeGcodes", lambda: None),
        atCommandActions=_shape(b, o, "atcommands", "atCommandActions", lambda: None),
        gcodeParser=_shape(b, o, "parser", "gcodeParser", lambda: None),
        _exclusionEnabled=b.bool("exclusionEnabled"),
        excluding=b.bool("excluding"),
        excludeStartTime=b.optreal("excludeStartTime"),
        feedRate=b.real("feedRate"),
        feedRateUnitMultiplier=b.real("feedRateUnitMultiplier"),
        numCommands=b.int("numCommands"),
        numExcludedCommands=b.int("numExcludedCommands"),
        position=_shape(b, o, "position", "position", lambda: mk_position(b, "pos", known=o.get("known", True))),
        lastRetraction=_shape(b, o, "lastRetraction", "lastRetraction", lambda: mk_retraction(b, "LR")),
        lastPosition=_shape(b, o, "lastPosition", "lastPosition", lambda: mk_position(b, "lastPos", known=True)),
        pendingCommands=_shape(b, o, "pending", "pendingCommands", lambda: None),
    )
    return b.new("ExcludeRegionState", **fields)


# ---------------------------------------------------------------------------------- registry
@contract("ExcludeRegionState.ExcludeRegionState.getRegion")
def _(c):
    c.pre(lambda b: {"self": mk_state(b, minimal=True), "args": {"regionId": b.string("regionId")}})
    c.modifies()
    c.loop(0, invariant=lambda L, k: R_no_id_prefix(L.self.excludedRegions, L.regionId, k))

    def post(f):
        lst = f.self.excludedRegions
        if f.result is None:
            return R.no_id(lst, f.a.regionId)
        k = witness(f, "ExcludeRegionState.ExcludeRegionState.getRegion/loop0.k",
                    lambda: R.first_index(lst, f.a.regionId))
        return And(0 <= k, k < R.rl_len(lst), str_eq(R.rl_id(lst, k), f.a.regionId),
                   R_no_id_prefix(lst, f.a.regionId, k), R.region_same(f.result, R.rl_elem(lst, k)))
    c.ensures("C13.lookup-first-match", post, props=("C13", "C12"))

    def result(f):
        if f.interp.ctx.branch(f.interp.ctx.bool("getRegion.found", record=False)):
            k = witness(f, "ExcludeRegionState.ExcludeRegionState.getRegion/loop0.k", None)
            return R.rl_elem(f.self.excludedRegions, k)
        return None
    c.result(result)
    c.use_modular()


def R_no_id_prefix(lst, rid, k):
    return ForAll(0, k, lambda j: Not(str_eq(R.rl_id(lst, j), rid)))


def witness(f, ghost_key, native_fn):
    """Index witness of an existential post-condition: computed natively; the loop index when the function
    itself is verified; a fresh skolem constant when the contract is used at a call site."""
    if getattr(f, "native", False):
        return native_fn()
    if ghost_key not in f.g:
        f.g[ghost_key] = f.ctx.int("witness." + ghost_key.split("/")[-1], record=False)
    return f.g[ghost_key]


@contract("ExcludeRegionState.ExcludeRegionState.addRegion")
def _(c):
    c.pre(lambda b: {"self": mk_state(b, minimal=True), "args": {"region": mk_region_arg(b, "new")}})
    c.requires("unique-ids", lambda f: R.unique_ids(f.self.excludedRegions))
    c.modifies("self.excludedRegions.[]")
    c.raises("ValueError", when=lambda f: Not(R.no_id(f.self.excludedRegions, f.a.region.id)))
    c.ensures("C13.append-or-unchanged", lambda f: (
        R.is_append(f.self.excludedRegions, f.old.self.excludedRegions, f.a.region) if f.exc is None
        else R.same_list(f.self.excludedRegions, f.old.self.excludedRegions)), props=("C13", "C12"))
    c.ensures("C13.ids-unique", lambda f: R.unique_ids(f.self.excludedRegions), props=("C13",))
    c.use_modular()


@contract("ExcludeRegionState.ExcludeRegionState.deleteRegion")
def _(c):
    c.pre(lambda b: {"self": mk_state(b, minimal=True), "args": {"regionId": b.string("regionId")}})
    c.requires("unique-ids", lambda f: R.unique_ids(f.self.excludedRegions))
    c.modifies("self.excludedRegions.[]")
    c.loop(0, invariant=lambda L, k: And(R_no_id_prefix(L.self.excludedRegions, L.regionId, k),
                                         R.same_list(L.self.excludedRegions, L.f.old.self.excludedRegions)))

    def post(f):
        new, old = f.self.excludedRegions, f.old.self.excludedRegions
        rid = f.a.regionId
        found = f.result if isinstance(f.result, bool) else f.result
        if f.result is False:
            return And(R.same_list(new, old), R.no_id(old, rid))
        if f.result is True:
            k = witness(f, "ExcludeRegionState.ExcludeRegionState.deleteRegion/loop0.k", lambda: R.first_index(old, rid))
            return And(0 <= k, k < R.rl_len(old), str_eq(R.rl_id(old, k), rid), R.is_delete_at(new, old, k))
        return False
    c.ensures("C13.delete-whole-view", post, props=("C13", "C12"))
    c.ensures("C13.ids-unique", lambda f: R.unique_ids(f.self.excludedRegions), props=("C13",))
    c.result("forked-bool")
    c.use_modular()


@contract("ExcludeRegionState.ExcludeRegionState.replaceRegion")
def _(c):
    def pre(b):
        reg = mk_region_arg(b, "new")
        if b.choose(2, "id None?") == 1:
            reg.id = None
        return {"self": mk_state(b, minimal=True),
                "args": {"newRegion": reg, "mustContainOldRegion": b.bool("mustContainOldRegion")},
                "ghost": {"px": b.real("p.x"), "py": b.real("p.y")}}
    c.pre(pre)
    c.requires("unique-ids", lambda f: R.unique_ids(f.self.excludedRegions))
    c.modifies("self.excludedRegions.[]")
    c.loop(0, invariant=lambda L, k: And(
        R_no_id_prefix(L.self.excludedRegions, L.newRegion.id, k),
        R.same_list(L.self.excludedRegions, L.f.old.self.excludedRegions)), scratch=["region"])
    c.raises("ValueError", when=None)

    def post(f):
        new, old = f.self.excludedRegions, f.old.self.excludedRegions
        if f.exc is not None:
            return R.same_list(new, old)            # refused => nothing changed
        rid = f.a.newRegion.id
        k = witness(f, "ExcludeRegionState.ExcludeRegionState.replaceRegion/loop0.k", lambda: R.first_index(old, rid))
        return And(0 <= k, k < R.rl_len(old), str_eq(R.rl_id(old, k), rid), R.is_replace_at(new, old, k, f.a.newRegion))
    c.ensures("C13.replace-whole-view", post, props=("C13", "C12"))
    c.ensures("C13.ids-unique", lambda f: R.unique_ids(f.self.excludedRegions), props=("C13",))

    # C12: with mustContainOldRegion, an accepted update never un-excludes a point (p skolemised)
    def monotone(f):
        if f.exc is not None:
            return True
        old = f.old.self.excludedRegions
        rid = f.a.newRegion.id
        k = witness(f, "ExcludeRegionState.ExcludeRegionState.replaceRegion/loop0.k", lambda: R.first_index(old, rid))
        px, py = f.g["px"], f.g["py"]
        return Implies(And(f.a.mustContainOldRegion, R.contains(R.rl_elem(old, k), px, py)),
                       G.region_contains(f.a.newRegion, px, py))
    c.ensures("C12.update-covers-old", monotone, props=("C12",))
    c.ensures("C12.missing-id-or-unknown-refused", lambda f: Implies(
        f.exc is None, And(f.a.newRegion.id is not None)), props=("C12", "C13"))
    c.use_modular()


@contract("ExcludeRegionState.ExcludeRegionState.isPointExcluded")
def _(c):
    def pre(b):
        s = mk_state(b, minimal=True)
        s._exclusionEnabled = b.bool("exclusionEnabled")
        return {"self": s, "args": {"x": b.real("x"), "y": b.real("y")}}
    c.pre(pre)
    c.modifies()
    # no region before index k contains the point (over the opaque per-region predicate; the definition is
    # revealed for the element the body is about to test)
    c.loop(0, invariant=lambda L, k: ForAll(0, k, lambda j: Not(R.contains_op(R.rl_elem(L.self.excludedRegions, j), L.x, L.y))),
           reveal=lambda L, k: [R.reveal_contains(R.rl_elem(L.self.excludedRegions, k), L.x, L.y)])
    c.ensures("C01.point-test", lambda f: Iff(f.result, And(f.self._exclusionEnabled,
                                                            R.excluded(f.self.excludedRegions, f.a.x, f.a.y))),
              props=("C01", "C14", "C12", "C08"))
    c.reveal(lambda f: [R.reveal_excluded(f.self.excludedRegions, f.a.x, f.a.y)])
    c.caller_view("point-test-opaque", lambda f: Iff(f.result, And(f.self._exclusionEnabled,
                                                                   R.excluded_op(f.self.excludedRegions, f.a.x, f.a.y))))
    c.result("bool")
    c.use_modular()

"""Abstract view of the region registry (an ordered list of regions with unique ids)."""
from pyvc import ops
from pyvc.ops import And, Or, Not, Implies, Iff, ForAll, Exists, eq, str_eq
from spec import geometry as G


def symbolic(lst):
    return hasattr(lst, "arrays")


def norm(lst):
    """Executor-side concrete lists (PyList) are viewed through the same array view."""
    if hasattr(lst, "items") and hasattr(lst, "oid"):
        v = getattr(lst, "_view", None)
        if v is None or v[0] != len(lst.items):
            from pyvc.regions import from_items
            v = (len(lst.items), from_items(lst.items))
            lst._view = v
        return v[1]
    return lst


def rl_len(lst):
    lst = norm(lst)
    return lst.n if symbolic(lst) else len(lst)


def rl_elem(lst, k):
    lst = norm(lst)
    return lst.elem(k) if symbolic(lst) else lst[k]


def rl_id(lst, k):
    return rl_elem(lst, k).id


def region_same(a, b):
    """Same region value (class, id, parameters)."""
    if hasattr(a, "is_rect_term") or hasattr(b, "is_rect_term") or hasattr(a, "fields") or hasattr(b, "fields"):
        from pyvc.regions import elem_eq
        return elem_eq(a, b)
    if type(a) is not type(b):
        return False
    da, db = a.__dict__, b.__dict__
    return set(da) == set(db) and all(eq(da[k], db[k]) if not isinstance(da[k], str) else da[k] == db[k] for k in da)


def contains(elem, x, y):
    if hasattr(elem, "is_rect_term"):
        return ops.If(elem.is_rect_term, G.rect_contains(elem, x, y), G.circle_contains(elem, x, y))
    return G.region_contains(elem, x, y)


def _params(elem):
    """(is_rect, p0, p1, p2, p3) of a region value."""
    if hasattr(elem, "is_rect_term"):
        return (elem.is_rect_term, elem._p(0), elem._p(1), elem._p(2), elem._p(3))
    if G.is_rect(elem):
        return (True, elem.x1, elem.y1, elem.x2, elem.y2)
    return (False, elem.cx, elem.cy, elem.r, 0)


class _P(object):
    def __init__(self, kind, p0, p1, p2, p3):
        self.x1, self.y1, self.x2, self.y2 = p0, p1, p2, p3
        self.cx, self.cy, self.r = p0, p1, p2


def _contains_def(kind, p0, p1, p2, p3, x, y):
    e = _P(kind, p0, p1, p2, p3)
    return ops.If(kind, G.rect_contains(e, x, y), G.circle_contains(e, x, y))


# opaque spec predicate: "region value (kind, params) contains point (x, y)"
ContainsOp = ops.opaque("region_contains", _contains_def)


def contains_op(elem, x, y):
    return ContainsOp(*(_params(elem) + (x, y)))


def reveal_contains(elem, x, y):
    return ContainsOp.reveal(*(_params(elem) + (x, y)))


def excluded(lst, x, y):
    """Some region of the list contains (x, y)  (definition, over the opaque per-region predicate)."""
    return Exists(0, rl_len(lst), lambda k: contains_op(rl_elem(lst, k), x, y))


def _excluded_def(n, kind, p0, p1, p2, p3, x, y):
    import z3
    return Exists(0, n, lambda k: ContainsOp(z3.Select(kind, k), z3.Select(p0, k), z3.Select(p1, k),
                                             z3.Select(p2, k), z3.Select(p3, k), x, y))


ExcludedOp = ops.opaque("excluded", _excluded_def)


def excluded_op(lst, x, y):
    """Opaque form of `excluded` (what callers of isPointExcluded see)."""
    lst = norm(lst)
    if symbolic(lst):
        a = lst.arrays
        return ExcludedOp(a.n, a.kind, a.p[0], a.p[1], a.p[2], a.p[3], x, y)
    return excluded(lst, x, y)


def reveal_excluded(lst, x, y):
    lst = norm(lst)
    if symbolic(lst):
        a = lst.arrays
        return ExcludedOp.reveal(a.n, a.kind, a.p[0], a.p[1], a.p[2], a.p[3], x, y)
    return True


def unique_ids(lst):
    n = rl_len(lst)
    return ForAll(0, n, lambda i: ForAll(0, n, lambda j: Implies(i < j, Not(str_eq(rl_id(lst, i), rl_id(lst, j))))))


def same_list(a, b):
    a, b = norm(a), norm(b)
    if symbolic(a) and symbolic(b):
        from pyvc.regions import seq_eq
        return seq_eq(a.arrays, b.arrays)
    return And(eq(rl_len(a), rl_len(b)), ForAll(0, rl_len(a), lambda k: region_same(rl_elem(a, k), rl_elem(b, k))))


def no_id(lst, rid):
    return ForAll(0, rl_len(lst), lambda j: Not(str_eq(rl_id(lst, j), rid)))


def is_append(new, old, region):
    n = rl_len(old)
    return And(eq(rl_len(new), n + 1), ForAll(0, n, lambda j: region_same(rl_elem(new, j), rl_elem(old, j))),
               region_same(rl_elem(new, n), region))


def is_delete_at(new, old, k):
    n = rl_len(old)
    return And(eq(rl_len(new), n - 1),
               ForAll(0, n - 1, lambda j: region_same(rl_elem(new, j), _shift_elem(old, j, k))))


def _shift_elem(old, j, k):
    """elem(old, j if j<k else j+1) as a value usable in region_same."""
    if symbolic(old):
        if not ops.is_sym(j) and not ops.is_sym(k):
            return rl_elem(old, j if j < k else j + 1)
        import z3
        from pyvc.regions import RegionElem
        return RegionElem(old.arrays, z3.If(j < k, j, j + 1), None)
    return old[j if j < k else j + 1]


def is_replace_at(new, old, k, region):
    n = rl_len(old)
    return And(eq(rl_len(new), n), region_same(rl_elem(new, k), region),
               ForAll(0, n, lambda j: Implies(Not(eq(j, k)) if ops.is_sym(j) or ops.is_sym(k) else j != k,
                                              region_same(rl_elem(new, j), rl_elem(old, j)))))


def first_index(lst, rid):
    """Native helper: first index with that id or None."""
    for i in range(len(lst)):
        if lst[i].id == rid:
            return i
    return None

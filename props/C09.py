from props.common import *
from props.boundedrun import script
ID = "C09"
LEVEL = "proof"
TAGS = ("C09",)
CONTRACT_MODULES = ALL_CONTRACTS
FUNCTIONS = HANDLER_FUNCS + [H + "planArc", H + "computeArcCenterOffsets", H + "handleAtCommand"] + MOTION_FUNCS + [S + "disableExclusion", S + "processExtendedGcode", S + "_processExtendedGcodeEntry", S + "_processPendingCommands"] + AXIS_FUNCS[1:4] + ["GcodeParser.formatNumber"]
ASSUMPTIONS = ["A1", "A2", "A3", "A4", "INDUCTION"]
BOUNDED = [script("split_script.py")]
EXTRA_ASSUMPTIONS = ["configured script lines are non-empty commands (A5): that _splitGcodeScript drops blank and comment-only lines is checked bounded (bounded/split-script)",
                     "'after the axes have been homed' = invariant I-type (all tracked positions known, consistent units), established by G28 and preserved by every handler",
                     "not reachable by this technique (stated gap): float overflow to inf/NaN (e.g. int(math.ceil(inf))), time and memory for astronomically long arcs",
                     "parameter spellings: the handlers see the parser's abstract item sequence; that parsing never raises is part of C18/C19"]
EXPLANATION = ("Every implicit obligation generated while executing the handlers' call graph -- no ZeroDivisionError, no None in "
               "arithmetic/attribute access, indices in range, sqrt domain, assert conditions, no undeclared raise -- is discharged "
               "for all symbolic inputs satisfying the homed-state invariant, and each handler's result is None, IGNORE_GCODE_CMD or a "
               "non-empty list of commands (clause C09.result-shape / dispatch).")
BREAKERS = [{'desc': 'sqrt of a negative number for a too-small radius',
  'functions': ['GcodeHandlers.GcodeHandlers.computeArcCenterOffsets'],
  'module': 'GcodeHandlers',
  'new': '            if (True):',
  'old': '            if (halfDist <= abs(radius)):'},
 {'desc': 'exit divides by zero in millimetre mode',
  'functions': ['ExcludeRegionState.ExcludeRegionState.exitExcludedRegion'],
  'module': 'ExcludeRegionState',
  'new': '            f=formatNumber(self.feedRate / (self.feedRateUnitMultiplier - 1)),\n            z=formatNumber(self._logicalMoveTo',
  'old': '            f=formatNumber(self.feedRate / self.feedRateUnitMultiplier),\n            z=formatNumber(self._logicalMoveTo'},
 {'desc': 'zero segments for a degenerate arc (original F8)',
  'functions': ['GcodeHandlers.GcodeHandlers.planArc'],
  'module': 'GcodeHandlers',
  'new': '        numSegments = int(math.ceil(arcLength / MM_PER_ARC_SEGMENT))',
  'old': '        numSegments = max(1, int(math.ceil(arcLength / MM_PER_ARC_SEGMENT)))'},
 {'desc': 'empty list returned instead of IGNORE_GCODE_CMD',
  'functions': ['ExcludeRegionState.ExcludeRegionState.processLinearMoves'],
  'module': 'ExcludeRegionState',
  'new': '        return returnCommands\n\n    def enterExcludedRegion',
  'old': '        if (not returnCommands):\n'
         '            returnCommands = self.ignoreGcodeCommand()\n'
         '\n'
         '        return returnCommands\n'
         '\n'
         '    def enterExcludedRegion'}]

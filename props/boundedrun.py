"""Runs a bounded stand-in script under the real interpreter and returns its JSON result."""
import json
import os
import subprocess

VERIF = os.path.dirname(os.path.dirname(os.path.abspath(__file__)))


def script(name):
    def run(tier, seed, repo):
        p = subprocess.run(["/venv/bin/python", os.path.join(VERIF, "bounded", name), tier, str(seed), repo],
                           capture_output=True, text=True, timeout=3600 if tier == "thorough" else 900,
                           cwd=os.path.join(VERIF, "bounded"), env=dict(os.environ, PYTHONWARNINGS="ignore"))
        lines = [l for l in p.stdout.splitlines() if l.startswith("{")]
        if not lines:
            raise RuntimeError("bounded script %s produced no result: %s" % (name, p.stderr[-1500:]))
        return json.loads(lines[-1])
    return run

"""A python list of numbers that is only appended to, of symbolic length (planArc's `rval`)."""
import z3

from . import ops
from .values import Model, PyList, SymSeq, Unsupported, next_oid, to_real


class GrowList(Model):
    clsname = "list"

    def __init__(self, n, arr):
        self.n = n
        self.arr = arr
        self.oid = next_oid()
        self.fresh = True
        self.loop_local = True

    @classmethod
    def symbolic(cls, ctx, name="rval", sort=None):
        n = ctx.int(name + ".len", record=False)
        ctx.assume(n >= 0, definitional=True)
        arr = z3.Array(ctx.fresh_name(name + ".items"), z3.IntSort(), sort if sort is not None else z3.RealSort())
        return cls(n, arr)

    def _lift(self, interp, it, node):
        if self.arr.range() == z3.StringSort():
            from .stubs import sstr_to_z3
            z = sstr_to_z3(it)
            if z is None:
                raise Unsupported("non-string item appended to a list of commands: %r" % (it,), node)
            return z
        return to_real(interp.num(it, node))

    def append_item(self, interp, it, node):
        it = interp.deref(it)
        interp.ctx.log_write(self, "[]")
        self.arr = z3.Store(self.arr, self.n, self._lift(interp, it, node))
        self.n = self.n + 1

    def extend_seq(self, interp, seq, node):
        """Concatenate a symbolic sequence (fresh array with the two defining quantified facts)."""
        ctx = interp.ctx
        ctx.log_write(self, "[]")
        m = seq.length
        new = z3.Array(ctx.fresh_name("concat.items"), z3.IntSort(), self.arr.range())
        q = z3.Int("q!cat%d" % next_oid())
        old, n = self.arr, self.n
        ctx.assumed.add("A2:list.extend concatenates (list semantics)")
        ctx.assume(z3.And(z3.ForAll([q], z3.Implies(z3.And(q >= 0, q < n), z3.Select(new, q) == z3.Select(old, q))),
                          z3.ForAll([q], z3.Implies(z3.And(q >= 0, q < m), z3.Select(new, n + q) == seq.get(q)))), definitional=True)
        self.arr = new
        self.n = n + m

    @property
    def length(self):
        return self.n

    def get(self, i):
        return z3.Select(self.arr, i)

    def iadd(self, interp, other, node):
        items = other.items if isinstance(other, PyList) else list(other)
        interp.ctx.log_write(self, "[]")
        for it in items:
            self.arr = z3.Store(self.arr, self.n, self._lift(interp, it, node))
            self.n = self.n + 1
        return self

    def call_method(self, interp, name, args, kwargs, node):
        if name == "__len__":
            return self.n
        if name == "__iter__":
            return SymSeq(self.n, self.get, name="rval")
        if name == "__bool__":
            return self.n > 0
        if name == "append":
            self.append_item(interp, args[0], node)
            return None
        if name == "extend":
            other = args[0]
            if isinstance(other, SymSeq):
                self.extend_seq(interp, other, node)
                return None
            items = other.items if isinstance(other, PyList) else list(other)
            for it in items:
                self.append_item(interp, it, node)
            return None
        raise Unsupported("list.%s on a growing list" % name, node)

    def copy(self, memo=None):
        return GrowList(self.n, self.arr)

    def struct_eq(self, other):
        raise Unsupported("comparison of growing lists")

    def read(self, key):
        return self

#!/bin/bash
# tools/eval_all_seeds.sh [jobs] -- runs every seeded change against the check of the property it breaks (scratch
# worktrees, /repo untouched) and prints one line per seed.
J=${1:-3}
cd /verif
run() {
  d=$1; id=$(basename $d)
  prop=$(python3 -c "import json;print(json.load(open('$d/meta.json'))['breaks_property'][:3])")
  out=$(python3 tools/eval_patch.py $d/patch.diff --props $prop --jobs 1 2>&1)
  ec=$(echo "$out" | grep -o "exit=[0-9]*" | head -1)
  v=$(echo "$out" | grep -c VIOLATION)
  echo "$id $prop $ec violations=$v $(echo "$out" | grep VIOLATION | sed 's/.*obligation=//' | cut -c1-90 | head -1)"
}
export -f run
ls -d seeded/*/ | xargs -P $J -I{} bash -c 'run {}'

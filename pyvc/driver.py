"""Property-level driver: runs the function verifications of a property in a process pool,
handles known findings, replays counter-models natively, writes evidence, sets the exit code."""
import importlib
import json
import random
import multiprocessing
import os
import re
import subprocess
import sys
import time
import traceback

VERIF = os.path.dirname(os.path.dirname(os.path.abspath(__file__)))
# evaluation of scratch trees may redirect the output (the registered commands never set this)
EVDIR = os.environ.get("VERIF_EVIDENCE_DIR") or os.path.join(VERIF, "evidence")
ACTIVE_CASES = {}      # obligation -> [case labels] of ALL recorded known findings (handed to the native replay)
NATIVE_PY = "/venv/bin/python"

ASSUMPTION_TEXT = {
    "A1": "A1 real arithmetic: IEEE-754 doubles are modelled as mathematical reals (no rounding, overflow, NaN, inf)",
    "A2": "A2 assumed library contracts (math.hypot/sqrt/ceil/atan2/cos/sin, str/format, OrderedDict, copy.deepcopy, re) as listed under coverage.assumed_contracts",
    "A3": "A3 OctoPrint/Flask objects are stubs with assumed contracts (Events constants, current_user, jsonify, plugin manager, settings, comm instance)",
    "A4": "A4 single thread: one hook/API/event call at a time",
    "A5": "A5 enter/exit scripts and non-inspected codes do not move X/Y/Z/E",
    "A6": "A6 OctoPrint's live path hands the hooks the same normalised command as the stream processor",
    "ENGINE": "the pyvc symbolic executor implements the semantics of the Python subset of DESIGN.md 2.2 faithfully (cross-checked by concrete differential runs and seeded breakers, not proved)",
    "INDUCTION": "history quantifiers are discharged by the meta-argument init + preservation => always (stated, not mechanised)",
}


def load_known_findings():
    path = os.path.join(VERIF, "known_findings.txt")
    findings = []
    if not os.path.exists(path):
        return findings
    for line in open(path):
        line = line.strip()
        if not line.startswith("finding:"):
            continue
        m = re.match(r"finding:\s+property=(\S+)\s+obligation=(\S+)\s+case=(\S+)\s+--\s+(.*)$", line)
        if m:
            for pid in m.group(1).split(","):
                findings.append({"property": pid, "obligation": m.group(2), "case": m.group(3), "text": m.group(4)})
    return findings


def _load(contract_modules, edits):
    from pyvc.source import Program
    from pyvc.contracts import REGISTRY
    for cm in contract_modules:
        importlib.import_module(cm)
    prog = Program(edits=edits) if edits else Program()
    return prog, REGISTRY


def _worker(job):
    """Runs in a forked pool process."""
    (qualname, contract_modules, timeout_ms, edits, active_cases, prefix) = job
    try:
        from pyvc.verify import verify_contract
        prog, REGISTRY = _load(contract_modules, edits)
        con = REGISTRY.get(qualname)
        if con is None:
            return {"function": qualname, "status": "crash", "error": "no contract registered", "obligations": []}
        return verify_contract(prog, REGISTRY, con, timeout_ms=timeout_ms, active_cases=active_cases, prefix=prefix)
    except Exception:
        return {"function": qualname, "status": "crash", "error": traceback.format_exc(), "obligations": []}


def _frontier_worker(job):
    (qualname, contract_modules, edits, depth) = job
    try:
        from pyvc.verify import compute_frontier
        from pyvc.values import Unsupported
        prog, REGISTRY = _load(contract_modules, edits)
        return (qualname, compute_frontier(prog, REGISTRY, REGISTRY.get(qualname), depth), None)
    except Exception:
        return (qualname, None, traceback.format_exc())


def _split_depths(functions, contract_modules):
    from pyvc.contracts import REGISTRY
    for cm in contract_modules:
        importlib.import_module(cm)
    return dict((q, REGISTRY.get(q).split_depth) for q in functions if REGISTRY.get(q) is not None)


def merge_results(parts):
    """Merge the results of the sub-tree jobs of one function."""
    if len(parts) == 1:
        return parts[0]
    out = dict(parts[0])
    out["obligations"] = []
    for k in ("paths", "dead_paths", "branch_queries"):
        out[k] = sum(p.get(k) or 0 for p in parts)
    out["solver_s"] = round(sum(p.get("solver_s") or 0 for p in parts), 3)
    out["wall_s"] = round(max(p.get("wall_s") or 0 for p in parts), 3)
    for k in ("edges", "executed", "used_contracts", "assumed"):
        out[k] = sorted(set(x for p in parts for x in (p.get(k) or [])))
    covers = {}
    for p in parts:
        for c, ok in (p.get("covers") or {}).items():
            covers[c] = covers.get(c, False) or ok
    out["covers"] = covers
    out["subtrees"] = len(parts)
    for p in parts:
        if p["status"] != "ok":
            out["status"] = p["status"]
            out["error"] = p.get("error")
        out["obligations"].extend(p.get("obligations", []))
    sts = set(p["status"] for p in parts)
    if "crash" in sts:
        out["status"] = "crash"
        out["error"] = [p.get("error") for p in parts if p["status"] == "crash"][0]
    elif sts - {"ok"}:
        # some sub-tree left the executor's subset: the obligations of the other sub-trees still count (undecided overall)
        out["status"] = "partial" if (out["obligations"] or "partial" in sts) else "unsupported"
    return out


def verify_functions(functions, contract_modules, timeout_ms, edits=None, active_cases=None, procs=None):
    depths = _split_depths(functions, contract_modules)
    serial = bool(os.environ.get("VERIF_SERIAL"))
    mp = multiprocessing.get_context("fork")
    prefixes = dict((q, [None]) for q in functions)
    fjobs = [(q, contract_modules, edits, d) for q, d in depths.items() if d]
    if fjobs:
        if serial:
            fres = [_frontier_worker(j) for j in fjobs]
        else:
            with mp.Pool(min(16, len(fjobs))) as pool:
                fres = pool.map(_frontier_worker, fjobs, chunksize=1)
        for (q, pres, err) in fres:
            if pres:
                prefixes[q] = pres
            # on error the function is verified unsplit, which reports the problem properly
    jobs = []
    for q in functions:
        for pre in prefixes[q]:
            jobs.append((q, contract_modules, timeout_ms, edits, active_cases or {}, pre))
    if serial or len(jobs) <= 1:
        raw = [_worker(j) for j in jobs]
    else:
        with mp.Pool(procs or min(16, len(jobs))) as pool:
            raw = pool.map(_worker, jobs, chunksize=1)
    out = []
    for q in functions:
        parts = [r for (j, r) in zip(jobs, raw) if j[0] == q]
        out.append(merge_results(parts))
    return out


def native_replay(function, obligation, rec, contract_modules, repo, edits=None):
    tmp = None
    if edits:
        # replay against a scratch copy of the package with the seeded edit applied
        import shutil
        import tempfile
        tmp = tempfile.mkdtemp(prefix="verif-breaker-")
        shutil.copytree(os.path.join(repo, "octoprint_excluderegion"), os.path.join(tmp, "octoprint_excluderegion"))
        for (mod, old, new) in edits:
            pth = os.path.join(tmp, "octoprint_excluderegion", mod + ".py")
            txt = open(pth, "rb").read().decode("utf-8").replace("\r\n", "\n")
            open(pth, "w").write(txt.replace(old, new))
        repo = tmp
    try:
        return _native_replay(function, obligation, rec, contract_modules, repo)
    finally:
        if tmp:
            import shutil
            shutil.rmtree(tmp, ignore_errors=True)


def _native_replay(function, obligation, rec, contract_modules, repo):
    req = {"repo": repo, "verif": VERIF, "function": function, "obligation": obligation,
           "model": rec.get("model") or {}, "choices": rec.get("choices") or [],
           "contract_modules": contract_modules, "active_cases": ACTIVE_CASES}
    os.makedirs(os.path.join(EVDIR, "replay"), exist_ok=True)
    reqpath = os.path.join(EVDIR, "replay", "_req_%d.json" % os.getpid())
    with open(reqpath, "w") as fh:
        json.dump(req, fh)
    try:
        p = subprocess.run([NATIVE_PY, os.path.join(VERIF, "pyvc", "native.py"), reqpath],
                           capture_output=True, text=True, timeout=120,
                           env=dict(os.environ, PYTHONPATH=VERIF, PYTHONWARNINGS="ignore"))
        try:
            out = json.loads(p.stdout)
        except ValueError:
            out = {"reproduced": None, "detail": "replay harness produced no JSON", "stdout": p.stdout[-2000:], "stderr": p.stderr[-2000:]}
    except subprocess.TimeoutExpired:
        out = {"reproduced": None, "detail": "replay timeout"}
    finally:
        if os.path.exists(reqpath):
            os.unlink(reqpath)
    return out


def run_lemmas(prop, edits):
    """Property-specific lemma obligations (e.g. regex language facts) computed in-process; same record format as a
    function result."""
    out = []
    for lf in getattr(prop, "LEMMAS", []):
        t0 = time.time()
        try:
            recs = lf(edits)
            out.append({"function": getattr(lf, "__name__", "lemma"), "status": "ok", "obligations": recs, "paths": 0,
                        "wall_s": round(time.time() - t0, 3), "solver_s": sum(r.get("secs", 0) for r in recs), "covers": {}})
        except Exception:
            err = traceback.format_exc()
            if "does not apply exactly once" in err:
                out.append({"function": getattr(lf, "__name__", "lemma"), "status": "crash", "error": err, "obligations": []})
            else:
                out.append({"function": getattr(lf, "__name__", "lemma"), "status": "crash", "error": err, "obligations": []})
    return out


def run_bounded_on_edit(bc, seed, repo, edits):
    """Run a bounded script against a scratch copy of the package with a seeded edit applied."""
    import shutil
    import tempfile
    tmp = tempfile.mkdtemp(prefix="verif-breaker-")
    try:
        shutil.copytree(os.path.join(repo, "octoprint_excluderegion"), os.path.join(tmp, "octoprint_excluderegion"))
        for (mod, old, new) in edits:
            pth = os.path.join(tmp, "octoprint_excluderegion", mod + ".py")
            txt = open(pth, "rb").read().decode("utf-8").replace("\r\n", "\n")
            if txt.count(old) != 1:
                return {"name": "bounded", "violations": [], "skipped": True}
            open(pth, "w").write(txt.replace(old, new))
        return bc("quick", seed, tmp)
    finally:
        shutil.rmtree(tmp, ignore_errors=True)


def clause_tags(prop, fn, clause_name):
    from pyvc.contracts import REGISTRY
    for cm in prop.CONTRACT_MODULES:
        importlib.import_module(cm)
    con = REGISTRY.get(fn)
    if con is None:
        return None
    for c in con.ensures_:
        if c.name == clause_name:
            return list(c.props)
    return None


def relevant(ob, tags):
    """Does an obligation record count for a property with these clause tags?"""
    if ob["kind"] != "post":
        return True          # implicit / frame / loop / call-pre / raises obligations support every clause
    if not ob.get("props"):
        return True
    return any(t in ob["props"] for t in tags)


def run_property(prop, tier, seed):
    """prop: module with ID, FUNCTIONS, TAGS, CONTRACT_MODULES, LEVEL, ASSUMPTIONS, optional BOUNDED, BREAKERS."""
    t0 = time.time()
    pid = prop.ID
    repo = os.environ.get("VERIF_REPO", "/repo")
    timeout_ms = int(os.environ.get("VERIF_Z3_TIMEOUT_MS", "20000" if tier == "quick" else "120000"))
    findings = [f for f in load_known_findings() if f["property"] == pid]
    active_cases = {}
    for fd in findings:
        active_cases.setdefault(fd["obligation"], []).append(fd["case"])
    ACTIVE_CASES.clear()
    for fd in load_known_findings():
        if fd["case"] not in ACTIVE_CASES.setdefault(fd["obligation"], []):
            ACTIVE_CASES[fd["obligation"]].append(fd["case"])
    results = verify_functions(prop.FUNCTIONS, prop.CONTRACT_MODULES, timeout_ms, active_cases=active_cases)
    # ---- closure: a caller is checked against its callees' CONTRACTS, so every contract used that way has to be
    #      discharged in this very check -- with ALL its clauses, whatever property they are tagged for (the call site
    #      assumed all of them).  Functions used through a summary stay listed assumptions.
    closure_fns = []
    if not os.environ.get("VERIF_NO_CLOSURE") and not getattr(prop, "NO_CLOSURE", False):
        from pyvc.contracts import REGISTRY as _REG
        for cm in prop.CONTRACT_MODULES:
            importlib.import_module(cm)
        seen = set(prop.FUNCTIONS)
        frontier = set(u for r in results for u in r.get("used_contracts", [])) - seen
        while frontier:
            seen |= frontier
            # a callee used through a SUMMARY contributes no assumed clause (the summary itself is a listed assumption):
            # only contracts whose post-conditions were assumed at a call site are followed
            batch = [q for q in sorted(frontier) if _REG.get(q) is not None and getattr(_REG.get(q), "pre_builder", None) is not None
                     and _REG.get(q).summary_fn is None]
            if not batch:
                break
            rs = verify_functions(batch, prop.CONTRACT_MODULES, timeout_ms, active_cases=active_cases)
            for r in rs:
                r["closure"] = True
            results += rs
            closure_fns += batch
            frontier = set(u for r in rs for u in r.get("used_contracts", [])) - seen
    results += run_lemmas(prop, None)
    tags = getattr(prop, "TAGS", (pid,))
    n_ob = n_dis = 0
    undecided = []
    violations = []
    warnings = []
    unsupported_fns = []
    undecided_obs = []
    candidates = []
    known_hit = []
    crashes = []
    samples = []
    backends = {}
    solver_s = 0.0
    fn_report = []
    assumed = set()
    inlined = set()
    used_contracts = set()
    vacuity = []
    for r in results:
        if r["status"] == "crash":
            crashes.append("%s: %s" % (r["function"], (r.get("error") or "").strip().splitlines()[-1:]))
            sys.stderr.write(r.get("error") or "")
            continue
        if r["status"] == "unsupported":
            undecided.append("%s: unsupported construct: %s" % (r["function"], r["error"]))
            unsupported_fns.append(r["function"])
            continue
        if r["status"] == "partial":
            undecided.append("%s: unsupported construct: %s" % (r["function"], r["error"]))
            unsupported_fns.append(r["function"])
        assumed.update(r.get("assumed", []))
        used_contracts.update(r.get("used_contracts", []))
        inlined.update(x for x in r.get("executed", []) if x != r["function"])
        for cname, ok in (r.get("covers") or {}).items():
            if not ok and r["status"] != "partial":
                vacuity.append("unreachable: " + cname)
        cnt = 0
        for ob in r["obligations"]:
            if not relevant(ob, tags) and not r.get("closure"):
                continue
            cnt += 1
            n_ob += 1
            solver_s += ob["secs"]
            backends[ob["backend"]] = backends.get(ob["backend"], 0) + 1
            expected_sat = ob.get("expected") == "sat"
            if expected_sat:
                # inside-part of a known finding: sat => still present
                n_ob -= 1
                if ob["status"] == "refuted":
                    known_hit.append((ob, r["function"]))
                continue
            if ob["status"] == "discharged":
                n_dis += 1
                if len(samples) < 6 and ob["backend"] != "trivial":
                    samples.append({"obligation": ob["name"], "kind": ob["kind"], "backend": ob["backend"], "secs": ob["secs"], "path": ob.get("path")})
            elif ob["status"] == "refuted":
                violations.append((ob, r["function"]))
            elif ob["status"] == "candidate":
                candidates.append((ob, r["function"]))
            else:
                undecided.append("%s: solver unknown (%s)" % (ob["name"], ob.get("reason")))
                undecided_obs.append((ob, r["function"]))
        if cnt == 0:
            vacuity.append("no obligations generated for %s" % r["function"])
        fn_report.append({"function": r["function"], "role": "callee contract used by the property's functions, discharged here with all its clauses"
                          if r.get("closure") else "listed for the property", "file": r.get("file"), "lines": r.get("lines"),
                          "paths": r.get("paths"), "obligations": cnt, "solver_s": r.get("solver_s"),
                          "wall_s": r.get("wall_s"), "call_edges": r.get("edges")})
    # ---- candidates (solver undecided, weakened query sat): a violation only if the real code reproduces it
    for ob, fn in candidates:
        nat = native_replay(fn, ob["name"], ob, prop.CONTRACT_MODULES, repo)
        if nat.get("reproduced") is True and nat.get("pre_holds_natively"):
            ob["native"] = nat
            violations.append((ob, fn))
        else:
            undecided.append("%s: solver unknown (%s); weakened-query candidate did not reproduce on the real code"
                             % (ob["name"], ob.get("reason")))
            undecided_obs.append((ob, fn))
    # ---- functions outside the executor's subset on this tree: the contract cannot be discharged (undecided), but its
    #      natively evaluable post-conditions are still probed on the real code with pseudo-random inputs
    for fn in unsupported_fns:
        rnd = random.Random(seed * 104729 + len(fn))
        for attempt in range(int(os.environ.get("VERIF_PROBES", "12")) * 5):
            nat = native_replay(fn, fn + "/*", {"model": {"__random__": rnd.randrange(1 << 30)}, "choices": []},
                                prop.CONTRACT_MODULES, repo)
            if nat.get("reproduced") is True and nat.get("pre_holds_natively") and nat.get("failed_clause"):
                cl_tags = clause_tags(prop, fn, nat["failed_clause"])
                if cl_tags is None or any(t in cl_tags for t in tags) or not cl_tags:
                    violations.append(({"name": "%s/%s" % (fn, nat["failed_clause"]), "kind": "post", "status": "refuted",
                                        "backend": "native-probe", "secs": 0, "model": nat.get("inputs"), "native": nat}, fn))
                    break
    # ---- undecided obligations: probe the real code with pseudo-random inputs (a violation only if it reproduces)
    probed = {}
    still = []
    for u in undecided_obs:
        ob, fn = u
        if ob["name"] in probed:
            continue
        hit = None
        rnd = random.Random(seed * 7919 + len(probed))
        target = ob["name"]
        for attempt in range(int(os.environ.get("VERIF_PROBES", "12")) * (3 if target.endswith("/*") else 1)):
            nat = native_replay(fn, target, {"model": {"__random__": rnd.randrange(1 << 30)}, "choices": []},
                                prop.CONTRACT_MODULES, repo)
            if nat.get("reproduced") is None and not target.endswith("/*") and nat.get("pre_holds_natively") is not None \
                    and not nat.get("raised"):
                # the undecided obligation has no native counterpart (a loop lemma, a call-site obligation): probe the
                # function's natively evaluable post-conditions instead (silent on the unchanged tree: tools/probe_all.py)
                target = fn + "/*"
                continue
            if nat.get("reproduced") is True and nat.get("pre_holds_natively"):
                if target.endswith("/*"):
                    cl_tags = clause_tags(prop, fn, nat.get("failed_clause") or "")
                    if not (cl_tags is None or not cl_tags or any(t in cl_tags for t in tags) or fn in closure_fns):
                        continue
                    hit = ({"name": "%s/%s" % (fn, nat.get("failed_clause")), "kind": "post", "status": "refuted",
                            "backend": "native-probe", "secs": 0, "model": nat.get("inputs"), "native": nat}, fn)
                else:
                    hit = (dict(ob, model=nat.get("inputs"), native=nat, backend="native-probe"), fn)
                break
        probed[ob["name"]] = hit
        if hit:
            violations.append(hit)
    undecided = [u for u in undecided if not any(probed.get(n) for n in probed if u.startswith(n))]
    # ---- bounded sub-checks (never counted as discharged obligations)
    bounded = []
    for bc in getattr(prop, "BOUNDED", []):
        try:
            br = bc(tier, seed, repo)
        except Exception:
            crashes.append("bounded check crashed: " + traceback.format_exc().splitlines()[-1])
            sys.stderr.write(traceback.format_exc())
            continue
        bounded.append(br)
        for v in br.get("violations", []):
            violations.append(({"name": br["name"] + "/" + v.get("clause", "bounded"), "kind": "bounded", "bounded": v,
                                "status": "refuted", "backend": "bounded", "secs": 0}, br["name"]))
        for kf in br.get("known", []):
            if (kf["obligation"], kf.get("case")) in [(fd["obligation"], fd["case"]) for fd in findings]:
                known_hit.append(({"name": kf["obligation"], "bounded": kf, "case": kf.get("case")}, br["name"]))
            else:   # the script recognised the failure pattern, but it is not a recorded finding: a violation
                violations.append(({"name": kf["obligation"], "kind": "bounded", "bounded": kf, "status": "refuted",
                                    "backend": "bounded", "secs": 0}, br["name"]))
    # ---- self-validation: seeded breakers must be refuted
    selfval = []
    breakers = list(getattr(prop, "BREAKERS", []))
    if tier == "quick":
        breakers = breakers[:int(os.environ.get("VERIF_QUICK_BREAKERS", "2"))]
    for bk in breakers:
        tb0 = time.time()
        fnlist = bk.get("functions", prop.FUNCTIONS)
        rs = verify_functions(fnlist, prop.CONTRACT_MODULES, timeout_ms, edits=[(bk["module"], bk["old"], bk["new"])],
                              active_cases=active_cases)
        if bk.get("lemmas"):
            rs += run_lemmas(prop, [(bk["module"], bk["old"], bk["new"])])
        if bk.get("bounded"):
            for bc in getattr(prop, "BOUNDED", []):
                br = run_bounded_on_edit(bc, seed, repo, [(bk["module"], bk["old"], bk["new"])])
                rs.append({"function": br["name"], "status": "ok", "obligations": [
                    {"name": br["name"] + "/" + v.get("clause", "bounded"), "kind": "bounded", "status": "refuted", "backend": "bounded",
                     "secs": 0, "props": list(tags)} for v in br.get("violations", [])[:3]]})
        hit = [ob["name"] for r in rs for ob in r.get("obligations", []) if ob["status"] == "refuted"
               and ob.get("expected") != "sat" and relevant(ob, tags)]
        if not hit:
            # solver-undecided obligations: candidate models first, then pseudo-random probes, on a scratch copy with the edit
            edits_ = [(bk["module"], bk["old"], bk["new"])]
            names_done = set()
            for r in rs:
                for ob in r.get("obligations", []):
                    if hit or ob["status"] not in ("candidate", "unknown") or not relevant(ob, tags) or ob["name"] in names_done:
                        continue
                    names_done.add(ob["name"])
                    tries = []
                    if ob["status"] == "candidate":
                        tries.append(ob)
                    rnd = random.Random(seed * 7919 + len(names_done))
                    tries += [{"model": {"__random__": rnd.randrange(1 << 30)}, "choices": []}
                              for _ in range(int(os.environ.get("VERIF_PROBES", "12")))]
                    target = ob["name"]
                    for t in tries:
                        nat = native_replay(r["function"], target, t, prop.CONTRACT_MODULES, repo, edits=edits_)
                        if nat.get("reproduced") is None and not target.endswith("/*") and not nat.get("raised"):
                            target = r["function"] + "/*"      # no native counterpart: probe the native post-conditions
                            continue
                        if nat.get("reproduced") is True and nat.get("pre_holds_natively"):
                            hit.append((ob["name"] if not target.endswith("/*") else "%s/%s" % (r["function"], nat.get("failed_clause")))
                                       + " (reproduced on the real code from a %s)" % (
                                "candidate model" if t is ob else "pseudo-random probe"))
                            break
        bad = [r for r in rs if r["status"] != "ok"]
        if not hit and any(r["status"] in ("unsupported", "partial") and r["function"] in unsupported_fns for r in rs):
            selfval.append({"breaker": bk["desc"], "skipped": "the function is outside the executor's subset on this tree"})
            continue
        if bad and "does not apply exactly once" in (bad[0].get("error") or ""):
            selfval.append({"breaker": bk["desc"], "skipped": "source text of the seeded edit is not present in this tree"})
            warnings.append("self-validation: seeded breaker skipped, its source text is not present in this tree: %s" % bk["desc"])
            continue
        selfval.append({"breaker": bk["desc"], "detected_by": sorted(set(hit))[:5], "detected": bool(hit),
                        "wall_s": round(time.time() - tb0, 2)})
        if not hit:
            # recorded in the evidence and printed, but not an alarm: an undetected seeded edit says something about the
            # checker's power (usually a solver time-out under load), not about the tree under test
            warnings.append("self-validation: seeded breaker not detected on this run: %s%s" % (
                bk["desc"], " (%s)" % (bad[0].get("error") or "").strip().splitlines()[-1] if bad else ""))
    # ---- engine self-validation: concrete differential run against CPython (evidence about the executor only)
    engine_check = None
    sc_functions = list(getattr(prop, "SELFCHECK", []))
    if sc_functions:
        try:
            from pyvc import selfcheck
            from pyvc.source import Program
            from pyvc.contracts import REGISTRY
            for cm in prop.CONTRACT_MODULES:
                importlib.import_module(cm)
            trials = int(os.environ.get("VERIF_SELFCHECK_TRIALS", "4" if tier == "quick" else "40"))
            if tier == "quick":
                sc_functions = sc_functions[:3]
            engine_check = selfcheck.run_selfcheck(Program(), REGISTRY, sc_functions, prop.CONTRACT_MODULES, repo, seed, trials)
            for d in engine_check["disagreements"][:3]:
                crashes.append("engine self-check: executor and CPython disagree on %s: %s" % (d["function"], d["difference"]))
            engine_check["disagreements"] = engine_check["disagreements"][:3]
        except Exception:
            crashes.append("engine self-check crashed: " + traceback.format_exc().splitlines()[-1])
    # ---- report
    lines = []
    replay_dir = os.path.join(EVDIR, "replay")
    os.makedirs(replay_dir, exist_ok=True)
    finding_by_key = {}
    for fd in load_known_findings():
        finding_by_key.setdefault((fd["obligation"], fd["case"]), fd)
    for fd in findings:
        finding_by_key[(fd["obligation"], fd["case"])] = fd
    printed = set()
    for ob, fn in known_hit:
        base = ob["name"].split("[")[0]
        case = ob.get("case")
        fd = finding_by_key.get((base, case))
        key = (base, case)
        if key in printed:
            continue
        printed.add(key)
        lines.append("KNOWN-FINDING: property=%s %s [%s case=%s]" % (pid, fd["text"] if fd else ob["name"], base, case))
    viol_files = []
    # one report per obligation name (prefer a counter-model that reproduced natively)
    by_name = {}
    tried = {}
    for ob, fn in violations:
        cur = by_name.get(ob["name"])
        if cur is not None and cur[0].get("native", {}).get("reproduced") is True:
            continue
        if ob["kind"] != "bounded" and "native" not in ob:
            if tried.get(ob["name"], 0) >= 4:
                continue
            tried[ob["name"]] = tried.get(ob["name"], 0) + 1
            ob["native"] = native_replay(fn, ob["name"], ob, prop.CONTRACT_MODULES, repo)
        if cur is None or ob.get("native", {}).get("reproduced") is True:
            by_name[ob["name"]] = (ob, fn)
    n_violating_paths = len(violations)
    violations = list(by_name.values())
    for ob, fn in violations:
        safe = re.sub(r"[^A-Za-z0-9_.@-]+", "_", ob["name"])[:150]
        path = os.path.join(replay_dir, "%s-%s.json" % (pid, safe))
        rep = {"property": pid, "obligation": ob["name"], "function": fn, "kind": ob["kind"],
               "model": ob.get("model"), "choices": ob.get("choices"), "goal": ob.get("goal"),
               "path": ob.get("path"), "backend": ob.get("backend")}
        suffix = ""
        if ob["kind"] == "bounded":
            rep["bounded_witness"] = ob.get("bounded")
            rep["native"] = {"reproduced": True, "detail": "witness found by running the real code"}
        else:
            nat = ob.get("native") or native_replay(fn, ob["name"], ob, prop.CONTRACT_MODULES, repo)
            if nat.get("reproduced") is not True and ob["kind"] == "post":
                # the solver's counter-model did not replay (e.g. an opaque spec predicate the concrete model does not
                # realise): look for a failing input of the SAME clause with pseudo-random probes of the real code
                rnd = random.Random(seed * 31337 + len(ob["name"]))
                for attempt in range(int(os.environ.get("VERIF_PROBES", "12")) * 2):
                    nat2 = native_replay(fn, ob["name"].split("[")[0], {"model": {"__random__": rnd.randrange(1 << 30)}, "choices": []},
                                         prop.CONTRACT_MODULES, repo)
                    if nat2.get("reproduced") is True and nat2.get("pre_holds_natively"):
                        nat2["found_by"] = "pseudo-random probe of the same clause (the solver's counter-model did not replay)"
                        nat2["counter_model_replay"] = {"reproduced": nat.get("reproduced"), "detail": nat.get("detail")}
                        rep["model"] = nat2.get("inputs")
                        nat = nat2
                        break
            rep["native"] = nat
            if nat.get("reproduced") is not True:
                suffix = " no-failing-input-found"
        with open(path, "w") as fh:
            json.dump(rep, fh, indent=1, default=repr)
        viol_files.append(path)
        lines.append("VIOLATION property=%s replay=%s obligation=%s%s" % (pid, path, ob["name"], suffix))
    wall = time.time() - t0
    level = prop.LEVEL
    trusted = [ASSUMPTION_TEXT[a] for a in getattr(prop, "ASSUMPTIONS", ["A1", "A2"])] + [ASSUMPTION_TEXT["ENGINE"]]
    coverage = {
        "obligations": n_ob, "discharged": n_dis,
        "checker_cmd": "cd /verif && ./check %s --tier %s" % (pid, tier),
        "trusted_base": trusted,
        "backends": backends, "solver_s": round(solver_s, 3),
        "functions_under_contract": fn_report,
        "inlined_callees": sorted(inlined),
        "callee_contracts_used": sorted(used_contracts),
        "assumed_contracts": sorted(assumed),
        "samples": samples or [{"note": "no non-trivial obligation"}],
        "source_sha256": _hashes(repo),
        "known_findings_printed": [l for l in lines if l.startswith("KNOWN-FINDING")],
        "bounded": bounded,
        "self_validation": selfval,
        "warnings": warnings,
        "engine_selfcheck": engine_check,
        "undecided": undecided,
        "vacuity_guard": vacuity,
        "explanation": getattr(prop, "EXPLANATION", ""),
    }
    if bounded:
        coverage["evaluations"] = sum(b.get("cases", 0) for b in bounded)
        coverage["distinct_nontrivial"] = sum(b.get("distinct_nontrivial", 0) for b in bounded)
        coverage["rule"] = "; ".join(b.get("rule", "") for b in bounded)
    ev = {"property_id": pid, "tier": tier, "seed": seed, "level": level, "coverage": coverage,
          "assumptions": trusted + getattr(prop, "EXTRA_ASSUMPTIONS", []), "wall_s": round(wall, 3),
          "violations": len(violations)}
    with open(os.path.join(EVDIR, "%s.json" % pid), "w") as fh:
        json.dump(ev, fh, indent=1, default=repr)
    for l in lines:
        print(l)
    print("%s: %d obligations, %d discharged, %d refuted, %d undecided, %d known findings; %d functions; %.1fs"
          % (pid, n_ob, n_dis, len(violations), len(undecided), len(printed), len(fn_report), wall))
    for u in undecided:
        print("UNDECIDED: " + u)
    for w in warnings:
        print("WARNING: " + w)
    for c in crashes + vacuity:
        print("CHECKER-ERROR: " + c)
    if violations:
        return 1
    if crashes or vacuity:
        return 3
    if undecided or n_ob == 0:
        return 2
    return 0


def _hashes(repo):
    import hashlib
    out = {}
    d = os.path.join(repo, "octoprint_excluderegion")
    for fn in sorted(os.listdir(d)):
        if fn.endswith(".py"):
            out[fn] = hashlib.sha256(open(os.path.join(d, fn), "rb").read()).hexdigest()[:16]
    return out


def main(argv):
    import argparse
    ap = argparse.ArgumentParser()
    ap.add_argument("prop")
    ap.add_argument("--tier", default=os.environ.get("VERIF_TIER", "quick"))
    ap.add_argument("--replay", default=None)
    a = ap.parse_args(argv)
    seed = int(os.environ.get("VERIF_SEED", "0"))
    sys.path.insert(0, VERIF)
    if a.replay:
        rep = json.load(open(a.replay))
        prop = importlib.import_module("props." + rep["property"])
        nat = native_replay(rep["function"], rep["obligation"], rep, prop.CONTRACT_MODULES,
                            os.environ.get("VERIF_REPO", "/repo"))
        print(json.dumps(nat, indent=1))
        return 0 if nat.get("reproduced") is not True else 1
    try:
        prop = importlib.import_module("props." + a.prop)
    except ImportError:
        traceback.print_exc()
        return 3
    try:
        return run_property(prop, a.tier if a.tier in ("quick", "thorough") else "quick", seed)
    except Exception:
        traceback.print_exc()
        return 3

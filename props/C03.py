from props.common import *
ID = "C03"
LEVEL = "proof"
TAGS = ("C03",)
CONTRACT_MODULES = ALL_CONTRACTS
FUNCTIONS = MOTION_FUNCS + [S + "disableExclusion"] + HANDLER_FUNCS + [f for f in AXIS_FUNCS if not f.endswith("setLogicalOffsetPosition")] + [S + "resetState"] + [P + "on_event"]
SELFCHECK = [S + "exitExcludedRegion", S + "processLinearMoves", S + "disableExclusion", AX + "nativeToLogical", AX + "logicalToNative", AX + "setLogicalPosition"]
ASSUMPTIONS = ["A1", "A2", "A3", "A4", "A5", "INDUCTION"]
EXTRA_ASSUMPTIONS = ["domain of the property: no homing / G92 X Y Z / M206 while an episode is open (invariant I-lastpos: the remembered entry position is the printer's physical position)"]
EXPLANATION = ("exitExcludedRegion's commands, decoded by an independent RS274 reader and run on the ghost printer from ANY physical "
               "position satisfying I-lastpos, end at the tracked native X/Y/Z with E register = tracked E and no filament moved, in "
               "absolute and relative positioning and both units; the XY travel happens at max(previous Z, target Z). "
               "processLinearMoves: every move whose destinations are clear ends with no episode open and printer position = file "
               "position; positioning mode/units handlers keep native positions. " + STREAM_NOTE)
BREAKERS = [
    {"module": "ExcludeRegionState", "old": "        if (newZ > oldZ):\n            # Move Z axis _up_ to new position", "new": "        if (newZ < oldZ):\n            # Move Z axis _up_ to new position",
     "desc": "Z is lowered before the XY travel", "functions": [S + "exitExcludedRegion"]},
    {"module": "ExcludeRegionState", "old": "        elif (self.excluding):\n            # Moving from an excluded region into a non-excluded region.",
     "new": "        elif (self.excluding and deltaE == 0):\n            # Moving from an excluded region into a non-excluded region.",
     "desc": "an extruding move out of a region does not close the episode", "functions": [S + "processLinearMoves"]},
    {"module": "ExcludeRegionState", "old": "                self.lastPosition = startPosition\n", "new": "                pass\n",
     "desc": "entry position remembered after the move (original F3)", "functions": [S + "processLinearMoves"]},
    {"module": "ExcludeRegionState", "old": "        return (axis.current - lastAxis.current) / axis.unitMultiplier", "new": "        return (axis.current - lastAxis.current)",
     "desc": "relative exit offsets not converted to inches", "functions": [S + "exitExcludedRegion"]},
]

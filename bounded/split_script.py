"""C06 bounded stand-in for ExcludeRegionPlugin._splitGcodeScript (parseLines generator + stringify): the configured
enter/exit script text is split into exactly its commands -- comments, blank and whitespace-only lines removed, leading
and trailing blanks dropped, order kept, None for an empty result and for None.

Space: every sequence of up to 3 (quick) / 4 (thorough) lines drawn from 12 line templates (plain commands, commands with
leading blanks, with a trailing comment, comment-only, blank, whitespace-only, a command that is just "0"-like text, a
T code, a lower-case code), each terminated by LF or CRLF (the last line also unterminated).  The reference is an
independent reading of each template (its bare command or nothing)."""
import itertools
import sys
import types

from common import setup, emit

tier, seed, repo = sys.argv[1], int(sys.argv[2]), sys.argv[3]
setup(repo)
from octoprint_excluderegion import ExcludeRegionPlugin  # noqa: E402
from octoprint_excluderegion.GcodeParser import GcodeParser  # noqa: E402

# (text of the line without terminator, expected command or None)
TEMPLATES = [("G1 X1 Y2", "G1 X1 Y2"), ("  M117 hello world", "M117 hello world"), ("M204 P500 ; set accel", "M204 P500"),
             ("; just a comment", None), ("", None), ("   ", None), ("G4 P0", "G4 P0"), ("T1", "T1"), ("g28 x0", "G28 x0"),
             ("M117 a;b", "M117 a"), ("  G92 E0  ", "G92 E0"), ("M73 P41 R0", "M73 P41 R0")]
MAXL = 3 if tier == "quick" else 4
plugin = ExcludeRegionPlugin.__new__(ExcludeRegionPlugin)
plugin.gcodeHandlers = types.SimpleNamespace(gcodeParser=GcodeParser())
violations, cases = [], 0


def check(text, expected):
    global cases
    cases += 1
    try:
        got = plugin._splitGcodeScript(text)
    except Exception as e:  # noqa
        got = "raised %r" % (e,)
    if got != expected:
        violations.append({"clause": "C06.script-split", "input": repr(text), "detail": "got %r, expected %r" % (got, expected)})


check(None, None)
check("", None)
for n in range(1, MAXL + 1):
    for lines in itertools.product(TEMPLATES, repeat=n):
        exp = [e for (_, e) in lines if e is not None] or None
        for eol in ("\n", "\r\n"):
            body = eol.join(t for (t, _) in lines)
            check(body + eol, exp)
            check(body, exp)
emit({"name": "bounded/split-script", "bounded": True,
      "bound": "all sequences of 1..%d lines over %d templates x {LF, CRLF} x {terminated, unterminated last line}" % (MAXL, len(TEMPLATES)),
      "cases": cases, "distinct_nontrivial": cases, "exhaustive": True,
      "rule": "a case is one script text", "samples": [repr(TEMPLATES[2][0]) + " -> " + repr(TEMPLATES[2][1])],
      "violations": violations[:20], "n_violations": len(violations)})

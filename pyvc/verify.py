"""Verification of one function against its contract; contract application at call sites;
obligation discharge (z3, cvc5 fallback)."""
import os
import subprocess
import tempfile
import time
import traceback

import z3

from . import ops
from . import limits
from .ctx import Engine, PathCtx
from .heap import snapshot, struct_eq
from .interp import Interp, Env, View, PathEnd, UNDEF, _b
from .stubs import Externals
from .values import (Obj, Opt, PyList, PyDict, Model, Unsupported, PathDead, PyExc, is_number,
                     is_bool, as_const_bool, next_oid, _OID)

QUICK_TIMEOUT_MS = int(os.environ.get("VERIF_Z3_TIMEOUT_MS", "20000"))


class Frame(object):
    """What contract clauses see: f.self, f.a.<arg>, f.old.(self|a), f.result, f.exc, f.g (ghost)."""

    def __init__(self, self_obj, args, ctx=None, interp=None):
        self.self = self_obj
        self.args = args
        self.a = View(args)
        self.old = None
        self.result = None
        self.exc = None
        self.g = {}
        self.ctx = ctx
        self.interp = interp
        self.native = False
        self.writes = []

    def unchanged(self):
        """No pre-existing object was written during the call (syntactic, per path)."""
        return len(self.writes) == 0

    def unchanged_except_self(self):
        return all(cont is self.self for (cont, key) in self.writes)

    def snapshot(self):
        memo = {}
        o = Frame(snapshot(self.self, memo), {k: snapshot(v, memo) for k, v in self.args.items()})
        o.g = dict((k, snapshot(v, memo)) for k, v in self.g.items())
        o.memo = memo
        self.old = o
        return o


class Builder(object):
    """Pre-state builder API (symbolic side).  The same builder functions run natively for replay."""

    native = False

    def __init__(self, ctx, interp):
        self.ctx = ctx
        self.interp = interp
        self.choices = []

    def real(self, name):
        return self.ctx.real(name)

    def int(self, name):
        return self.ctx.int(name)

    def bool(self, name):
        return self.ctx.bool(name)

    def string(self, name):
        return self.ctx.string(name)

    def optreal(self, name):
        return Opt(self.ctx.bool(name + ".isnone"), self.ctx.real(name))

    def choose(self, n, label="shape"):
        c = self.ctx.choose(n, label)
        self.choices.append(c)
        return c

    def new(self, clsname, **fields):
        cinfo = self.interp.program.find_class(clsname)
        if cinfo is None:
            o = Obj(None, fields, clsname=clsname)
        else:
            o = Obj(cinfo, fields)
            if fields:
                # attributes the class defines (assigned in __init__ / resetState) that the contract's pre-state does not
                # model: any use of them is outside the contract (undecided), never a silent pass or a false alarm
                import ast as _ast
                from .values import Opaque
                for mname in ("__init__", "resetState"):
                    m = cinfo.methods.get(mname)
                    if m is None:
                        continue
                    for n in _ast.walk(m.node):
                        if isinstance(n, _ast.Attribute) and isinstance(n.ctx, _ast.Store) and isinstance(n.value, _ast.Name) \
                                and n.value.id == "self" and n.attr not in o.fields:
                            o.fields[n.attr] = Opaque("%s.%s (attribute not modelled by the contract's pre-state)" % (clsname, n.attr))
        return o

    def list(self, items):
        return PyList(items)

    def dict(self, d):
        return PyDict(d)

    def assume(self, cond):
        self.ctx.assume(_b(cond) if not isinstance(cond, bool) else cond)

    def logger(self):
        from .stubs import Logger
        return Logger()

    def opaque(self, name):
        from .values import Opaque
        return Opaque(name)

    def optstr(self, name):
        from .values import Opt
        return Opt(self.ctx.bool(name + ".isnone"), self.ctx.string(name), kind="str")

    def optint(self, name):
        from .values import Opt
        return Opt(self.ctx.bool(name + ".isnone"), self.ctx.int(name), kind="num")

    def optobj(self, name, obj):
        from .values import OptObj
        return OptObj(self.ctx.bool(name + ".isnone"), obj)

    def lazy(self, name, alternatives):
        from .values import Lazy
        return Lazy(self.ctx, name, alternatives)

    def script(self, name):
        """A configured enter/exit script: non-empty list of strings of symbolic length."""
        import z3 as _z3
        from .values import SymSeq
        n = self.ctx.int(name + ".len")
        self.ctx.assume(n >= 1)
        arr = _z3.Array(self.ctx.fresh_name(name + ".lines"), _z3.IntSort(), _z3.StringSort())
        return SymSeq(n, lambda k: _z3.Select(arr, k), name=name)

    def realseq(self, name, even=False, min_len=0):
        import z3 as _z3
        from .values import SymSeq
        n = self.ctx.int(name + ".len")
        self.ctx.assume(n >= min_len)
        if even:
            self.ctx.assume(n % 2 == 0)
        arr = _z3.Array(self.ctx.fresh_name(name + ".items"), _z3.IntSort(), _z3.RealSort())
        seq = SymSeq(n, lambda k: _z3.Select(arr, k), name=name)
        self.ctx.symbols[name] = _SeqModelReader(n, arr)
        return seq

    def opaque_regex(self, name):
        from .stubs import RegexStub
        r = RegexStub("<configured pattern %s>" % name)
        r.opaque_predicate = True
        return r

    def spy(self, ghost, obj, method):
        """Native replay wraps obj.method to log calls into ghost['delegated']; symbolically the callee's
        call-site summary does the logging."""
        return None

    def gcode_command(self, name, code=None):
        """A symbolic command string whose parsed items are symbolic (see pyvc.gitems)."""
        from . import gitems
        src = self.ctx.string(name)
        self.ctx.assume(gitems.ItemsLen(src) >= 0, definitional=True)
        self.ctx.symbols[name + ".items"] = gitems.ItemsReader(src)
        return src

    def set_current_user(self, anonymous):
        self.ctx.ghost["anonymous"] = anonymous

    def ordmap(self, name):
        from .ordmap import OrdMap
        om = OrdMap.symbolic(self.ctx, name)
        self.ctx.symbols[name + ".table"] = _OrdMapReader(om.view())
        return om

    def gcode_table(self):
        from .framework import GcodeTable
        return GcodeTable(self.interp.program, self.ctx)

    def settings(self, values, is_global=False):
        from .framework import Settings
        st = Settings(values)
        if is_global:
            self.ctx.global_settings = st
        return st

    def plugin_manager(self):
        from .framework import PluginManager
        return PluginManager()

    def comm(self, streaming):
        from .framework import Comm
        return Comm(streaming)


class _OrdMapReader(object):
    """Pre-state contents of an ordered map (for counter-models / candidates): entries 0..min(n,3)-1."""

    class _A(object):
        pass

    def __init__(self, view):
        self.view = view
        self.arrays = self._A()
        self.arrays.n = view.n          # bounded to <= 3 by the model searches

    def model_value(self, m):
        v = self.view

        def ev(t):
            return m.eval(t, model_completion=True)
        n = ev(v.n).as_long()
        out = []
        for i in range(max(0, min(n, 3))):
            iv = z3.IntVal(i)
            ent = {"key": model_value(ev(z3.Select(v.key, iv))), "is_map": z3.is_true(ev(z3.Select(v.is_map, iv))),
                   "sval": model_value(ev(z3.Select(v.sval, iv))), "args": {}}
            if ent["is_map"]:
                for code in range(ord("A"), ord("Z") + 1):
                    cv = z3.IntVal(code)
                    if z3.is_true(ev(z3.Select(z3.Select(v.mhas, iv), cv))):
                        none = z3.is_true(ev(z3.Select(z3.Select(v.mnone, iv), cv)))
                        ent["args"][chr(code)] = None if none else model_value(ev(z3.Select(z3.Select(v.mval, iv), cv)))
            out.append(ent)
        return {"ordmap": out, "len": n}


class _SeqModelReader(object):
    def __init__(self, n, arr):
        self.n, self.arr = n, arr

    def model_value(self, m):
        n = m.eval(self.n, model_completion=True).as_long()
        return {"realseq": [model_value(m.eval(z3.Select(self.arr, z3.IntVal(i)), model_completion=True))
                            for i in range(min(n, 12))], "len": n}


def make_interp(program, ctx, registry, top=None, externals=None):
    ext = externals or default_externals()
    it = Interp(program, ctx, registry, externals=ext, top=top)
    return it


_EXT = [None]


def default_externals():
    if _EXT[0] is None:
        ext = Externals()
        try:
            from . import trig
            ext.trig = trig.Trig()
        except ImportError:
            pass
        _EXT[0] = ext
    return _EXT[0]


def _narrow(ctx, v):
    """An optional number that is known to be present on this path is passed on as the number."""
    if isinstance(v, Opt) and not ctx.pure:
        c = as_const_bool(v.isnone) if not isinstance(v.isnone, bool) else v.isnone
        if c is False:
            return v.val
        if c is None and not ctx._sat(v.isnone):
            return v.val
    return v


def bind_args(interp, finfo, full_args, kwargs, node=None):
    env = Env(finfo, finfo.module)
    interp.bind_params(finfo, env, full_args, kwargs, node)
    return env.locals


# ------------------------------------------------------------------------------------------
# call-site application of a contract
# ------------------------------------------------------------------------------------------
def apply_contract(interp, con, finfo, full_args, kwargs, node):
    ctx = interp.ctx
    full_args = [_narrow(ctx, interp.deref(a)) for a in full_args]
    locs = bind_args(interp, finfo, full_args, kwargs, node)
    self_obj = locs.get("self")
    f = Frame(self_obj, locs, ctx, interp)
    f.g = ctx.ghost
    caller = ctx.fn_stack[-1] if ctx.fn_stack else "?"
    caller_con = interp.registry.get(caller) if interp.registry is not None else None
    for cl in con.requires_:
        oname = "%s/requires:%s@%s" % (con.qualname, cl.name, caller)
        goal = _b(cl.fn(f))
        cases = (caller_con.call_cases.get((con.qualname, cl.name)) if caller_con is not None else None) or {}
        act = [c for c in (getattr(interp, "active_cases", None) or {}).get(oname, []) if c in cases]
        meta = {"callee": con.qualname, "line": getattr(node, "lineno", None)}
        if act:
            top = getattr(interp, "frame", None)
            guards = [(c, _b(cases[c](top))) for c in act]
            ctx.oblige("%s[outside:%s]" % (oname, ",".join(act)), _b(ops.Or(goal, *[g for _, g in guards])), meta,
                       kind="call-pre", assume_after=False)
            for c, g in guards:
                ctx.oblige("%s[inside:%s]" % (oname, c), _b(ops.Implies(g, goal)),
                           dict(meta, expected="sat", case=c), kind="call-pre", assume_after=False)
            ctx.assume(goal)
        else:
            ctx.oblige(oname, goal, meta, kind="call-pre")
    ctx.used_contracts.add(con.qualname)
    f.old = None
    fold = Frame(snapshot(self_obj), {k: snapshot(v) for k, v in locs.items()})
    f.old = fold
    raised = None
    for (tname, when) in con.raises_:
        cond = when(f) if when is not None else ctx.bool("raises." + tname, record=False)
        if interp.truth(cond, node):
            raised = tname
            break
    f.exc = raised
    if con.summary_fn is not None:
        if raised is not None:
            raise PyExc(raised, (ctx.string("exc.msg", record=False),))
        res = con.summary_fn(f)
        f.result = res
        if con.log_calls:
            ctx.ghost.setdefault("delegated", []).append(
                (finfo.name, dict((k, v) for k, v in locs.items() if k != "self"), res))
        return res
    # havoc the frame (also on exceptional exits: the clauses say what holds then)
    for path in (con.modifies_ or []):
        targets = path(f) if callable(path) else [interp.resolve_path(f.args, path, node)]
        for (obj, fld) in targets:
            if fld == "[]":
                if hasattr(obj, "havoc"):
                    obj.havoc(ctx, finfo.name)
                    ctx.log_write(obj, fld)
                    continue
                raise Unsupported("cannot havoc the contents of %r at a call site" % (obj,), node)
            cur = interp.get_attr(obj, fld, node)
            interp.raw_set(obj, fld, interp.havoc_value(interp.kind_of(cur), "%s.%s'" % (
                finfo.name, path if isinstance(path, str) else fld)))
            ctx.log_write(obj, fld)
    rk = con.result_kind
    if raised is not None or rk is None:
        res = None
    elif callable(rk):
        res = rk(f)
    else:
        res = interp.havoc_value(rk, finfo.name + ".result")
    f.result = res
    for cl in (con.caller_view_ or con.ensures_):
        ctx.assume(_b(cl.fn(f)))
    if con.log_calls:
        ctx.ghost.setdefault("delegated", []).append(
            (finfo.name, dict((k, v) for k, v in locs.items() if k != "self"), res))
    if raised is not None:
        raise PyExc(raised, (ctx.string("exc.msg", record=False),))
    return res


# ------------------------------------------------------------------------------------------
# verification of a function against its own contract
# ------------------------------------------------------------------------------------------
class PathOutcome(object):
    pass


def run_contract_paths(program, registry, con, active_cases=None, prefix=None, frontier_depth=None):
    """Explore all paths of the function under its contract.  Returns (paths, engine, interps)."""
    finfo = program.func(con.qualname)
    engine = Engine(frontier_depth=frontier_depth)
    info = {"edges": set(), "executed": set(), "used_contracts": set(), "assumed": set()}

    def thunk(ctx):
        del ops.APPLICATIONS[:]
        ctx.opaque_apps = ops.APPLICATIONS
        interp = make_interp(program, ctx, registry, top=con.qualname)
        interp.force_inline = set(con.inline_callees)
        interp.active_cases = active_cases
        b = Builder(ctx, interp)
        pre = con.pre_builder(b)
        self_obj = pre.get("self")
        args = dict(pre.get("args", {}))
        ghost = pre.get("ghost", {})
        ctx.ghost = ghost
        if finfo.cls is not None and finfo.kind != "static":
            locs = {"self": self_obj}
        else:
            locs = {}
        locs.update(args)
        f = Frame(self_obj, locs, ctx, interp)
        f.g = ghost
        interp.frame = f
        ctx.meta_choices = list(b.choices)
        for cl in con.requires_:
            ctx.assume(_b(cl.fn(f)))
        ctx.cover("%s/pre" % con.qualname)
        f.snapshot()
        mark_oid = _OID[0]
        w0 = len(ctx.writes)
        allowed = set()
        if con.modifies_ is not None:
            for path in con.modifies_:
                targets = path(f) if callable(path) else [interp.resolve_path(f.args, path)]
                for (obj, fld) in targets:
                    allowed.add((id(obj), fld))
        # positional call in declaration order
        a = finfo.node.args
        pnames = [p.arg for p in a.args]
        pos = []
        kw = {}
        for n in pnames:
            if n == "self" and finfo.cls is not None and finfo.kind != "static":
                continue
            if n in args:
                pos.append(args[n])
            else:
                break
        for n in pnames[len(pos) + (1 if "self" in locs else 0):]:
            if n in args:
                kw[n] = args[n]
        if a.vararg is not None and a.vararg.arg in args:
            va = args[a.vararg.arg]
            if isinstance(va, tuple):
                pos.extend(va)
            else:
                from .interp import _StarSeq
                pos.append(_StarSeq(va))
        if a.kwarg is not None and a.kwarg.arg in args:
            kw.update(args[a.kwarg.arg].d)
        full = ([self_obj] if "self" in locs else []) + pos
        try:
            try:
                f.result = interp.call_function(finfo, full, kw)
                f.exc = None
            except PyExc as e:
                f.result = None
                f.exc = e.tname
                f.exc_args = e.eargs
            except PathEnd:
                ctx.ended_in_loop = True
                return
        finally:
            info["edges"].update(interp.call_edges)
            info["executed"].update(ctx.executed)
            info["used_contracts"].update(ctx.used_contracts)
            info["assumed"].update(ctx.assumed)
        # ---- exceptional behaviour
        declared = dict((t, w) for (t, w) in con.raises_)
        if f.exc is not None:
            if f.exc not in declared:
                ctx.oblige("%s/no-raise:%s" % (con.qualname, f.exc), False,
                           {"exc": f.exc, "args": repr(getattr(f, "exc_args", ()))}, kind="raises")
                return
            w = declared[f.exc]
            if w is not None:
                fo = f.old
                ctx.oblige("%s/raises-only-when:%s" % (con.qualname, f.exc), _b(w(_oldframe(f))), kind="raises")
            ctx.cover("%s/raise:%s" % (con.qualname, f.exc))
        else:
            for (t, w) in con.raises_:
                if w is not None:
                    ctx.oblige("%s/must-raise:%s" % (con.qualname, t), _b(ops.Not(w(_oldframe(f)))), kind="raises")
            ctx.cover("%s/return" % con.qualname)
        f.writes = [(cont, key) for (cont, key) in ctx.writes[w0:] if getattr(cont, "oid", 0) <= mark_oid]
        # ---- post-conditions
        if con.ghost_exit is not None:
            con.ghost_exit(f)
        for rv in con.reveal_:
            for eqn in rv(f):
                ctx.assume(_b(eqn), definitional=True)
        for cl in con.ensures_ + con.caller_view_:
            try:
                g = cl.fn(f)
            except PathDead:
                continue
            except (Unsupported, PyExc, PathEnd):
                raise
            except Exception as e:  # noqa -- the clause does not fit the shape of value this code produced
                if type(e).__name__ in ("NotPure", "FrontierReached", "PathDead", "PathEnd", "_Return", "_Break", "_Continue"):
                    raise          # engine control flow, not a failure of the clause
                raise Unsupported("contract clause %s cannot be evaluated on the values this code produces (%s: %s)"
                                  % (cl.name, type(e).__name__, str(e)[:120]))
            oname = "%s/%s" % (con.qualname, cl.name)
            act = [c for c in (active_cases or {}).get(oname, []) if c in cl.cases]
            if act:
                fo = _oldframe(f)
                guards = [(c, _b(cl.cases[c](fo))) for c in act]
                ctx.oblige("%s[outside:%s]" % (oname, ",".join(act)), _b(ops.Or(g, *[gd for _, gd in guards])),
                           {"props": list(cl.props)}, kind="post", assume_after=False)
                for c, gd in guards:
                    ctx.oblige("%s[inside:%s]" % (oname, c), _b(ops.Implies(gd, g)),
                               {"props": list(cl.props), "expected": "sat", "case": c}, kind="post",
                               assume_after=False)
            else:
                ctx.oblige(oname, _b(g), {"props": list(cl.props)}, kind="post", assume_after=bool(cl.lemma))
        # ---- frame
        if con.modifies_ is not None:
            seen = set()
            for (cont, key) in ctx.writes[w0:]:
                if getattr(cont, "oid", 0) > mark_oid:
                    continue
                if (id(cont), key) in allowed or (id(cont), "*") in allowed or (id(cont), key) in seen:
                    continue
                seen.add((id(cont), key))
                oldc = f.old.memo.get(id(cont))
                if oldc is None:
                    raise Unsupported("frame: write to object unreachable from the pre-state: %r.%s" % (cont, key))
                cur, was = _read(cont, key), _read(oldc, key)
                ctx.oblige("%s/frame:%s.%s" % (con.qualname, _objname(f, cont), key), _b(struct_eq(cur, was)),
                           kind="frame", assume_after=False)

    def wrapped(ctx):
        try:
            thunk(ctx)
        finally:
            ctx.opaque_apps = list(ops.APPLICATIONS)
    engine.path_local_unsupported = frontier_depth is None
    paths = engine.run(wrapped, start=prefix)
    if frontier_depth is not None:
        # complete paths shorter than the frontier are their own sub-trees
        for p in paths:
            engine.frontier.append(list(p.script[:p.pos]))
    return paths, engine, info


def compute_frontier(program, registry, con, depth):
    paths, engine, info = run_contract_paths(program, registry, con, frontier_depth=depth)
    seen = []
    for pre in engine.frontier:
        if pre not in seen:
            seen.append(pre)
    return seen


def _oldframe(f):
    """Frame whose self/args are the *old* snapshot (for `when` conditions evaluated on the pre-state)."""
    o = Frame(f.old.self, f.old.args, f.ctx, f.interp)
    o.old = f.old
    o.g = f.old.g
    return o


def _read(cont, key):
    if isinstance(cont, Obj):
        return cont.fields.get(key, UNDEF)
    if isinstance(cont, PyList):
        return cont
    if isinstance(cont, PyDict):
        return cont.d.get(key, UNDEF)
    if isinstance(cont, Model):
        return cont.read(key)
    raise Unsupported("frame read %r.%s" % (cont, key))


def _objname(f, obj):
    # best-effort access path for readable obligation names
    seen = set()
    stack = [(f.self, "self")] + [(v, k) for k, v in f.args.items() if k != "self"]
    while stack:
        v, p = stack.pop()
        if id(v) in seen:
            continue
        seen.add(id(v))
        if v is obj:
            return p
        if isinstance(v, Obj):
            for k, x in v.fields.items():
                stack.append((x, p + "." + k))
    return getattr(obj, "clsname", "obj")


# ------------------------------------------------------------------------------------------
# solving
# ------------------------------------------------------------------------------------------
class Verdict(object):
    def __init__(self, ob, status, backend, secs, model=None, reason=None):
        self.ob = ob
        self.status = status     # 'discharged' | 'refuted' | 'unknown'
        self.backend = backend
        self.secs = secs
        self.model = model
        self.reason = reason


class IncrementalPathSolver(object):
    """One solver per path: the path condition is asserted incrementally, each goal is checked under push/pop.
    Anything the fast incremental check cannot decide goes through the full strategy of solve_obligation."""

    def __init__(self, timeout_ms):
        self.s = z3.Solver()
        self.npc = 0
        self.prefix_ids = []
        self.timeout_ms = timeout_ms

    def solve(self, ob):
        t0 = time.time()
        c = as_const_bool(ob.goal)
        if c is True:
            return Verdict(ob, "discharged", "trivial", 0.0)
        if self.prefix_ids[:len(ob.pc)] != [c.get_id() for c in ob.pc[:len(self.prefix_ids)]][:len(ob.pc)] or \
                len(ob.pc) < len(self.prefix_ids):
            return solve_obligation(ob, ob.symbols, self.timeout_ms)   # closed ("using") obligation: own small query
        try:
            for pcond in ob.pc[self.npc:]:
                self.s.add(pcond)
                self.prefix_ids.append(pcond.get_id())
            self.npc = len(ob.pc)
            self.s.push()
            self.s.add(z3.Not(ob.goal))
        except z3.Z3Exception:
            # the incremental solver is in an unusable state (e.g. a cancelled operation): start a new one and decide
            # this obligation with its own query
            self.s = z3.Solver()
            self.npc = 0
            self.prefix_ids = []
            return solve_obligation(ob, ob.symbols, self.timeout_ms)
        t1 = time.time()
        r0 = _rl(self.s) if os.environ.get("VERIF_RLSTATS") else 0
        r = limits.check(self.s, 400)
        _stat("incr", self.s, t1, r, r0)
        if r == z3.unsat:
            self.s.pop()
            return Verdict(ob, "discharged", "z3", time.time() - t0)
        if r == z3.sat:
            m = self.s.model()
            vals = extract_model(m, ob.symbols)
            self.s.pop()
            fm = faithful_model(ob)
            return Verdict(ob, "refuted", "z3", time.time() - t0, model=fm if fm is not None else vals)
        self.s.pop()
        return solve_obligation(ob, ob.symbols, self.timeout_ms)


def _rl(solver):
    try:
        st = solver.statistics()
        for k in st.keys():
            if k == "rlimit count":
                return st.get_key_value(k)
    except Exception:
        pass
    return 0


def _stat(tag, solver, t0, r, r0=0):
    pth = os.environ.get("VERIF_RLSTATS")
    if pth:
        with open(pth, "a") as fh:
            fh.write("%s %.4f %d %s\n" % (tag, time.time() - t0, _rl(solver) - r0, r))


def _check(solver, timeout_ms):
    t0 = time.time()
    r = limits.check(solver, timeout_ms)
    _stat("full", solver, t0, r)
    return r


def solve_obligation(ob, symbols, timeout_ms=None):
    timeout_ms = timeout_ms or QUICK_TIMEOUT_MS
    t0 = time.time()
    goal = ob.goal
    c = as_const_bool(goal)
    if c is True:
        return Verdict(ob, "discharged", "trivial", 0.0)
    neg = z3.Not(goal)
    # 1. default z3
    s = z3.Solver()
    for p in ob.pc:
        s.add(p)
    s.add(neg)
    quant = has_quantifier(neg) or any(has_quantifier(p) for p in ob.pc)
    r = z3.unknown
    backend = "z3"
    smt2 = s.to_smt2()
    if "str." in smt2 or "String" in smt2:
        # sequence theory: z3 is unstable here, cvc5 --strings-exp decides these queries (see the brief); give z3 a short
        # attempt and cvc5 the budget
        r = _check(s, 1500)
        if r == z3.unsat:
            return Verdict(ob, "discharged", "z3-seq", time.time() - t0)
        if r == z3.sat:
            vals = extract_model(s.model(), symbols)
            return Verdict(ob, "refuted", "z3-seq", time.time() - t0, model=vals)
        # quantified queries (array views of tables): cvc5 rarely decides them, z3 with a longer budget often finds the
        # counter-model -- give cvc5 the big budget only when there is no quantifier
        rc = cvc5_check(smt2, max(timeout_ms * 2, 40000) if not quant else 5000)
        if rc == "unsat":
            return Verdict(ob, "discharged", "cvc5", time.time() - t0)
        r = _check(s, timeout_ms if rc == "sat" else timeout_ms // 2)
        if r == z3.unsat:
            return Verdict(ob, "discharged", "z3-seq", time.time() - t0)
        if r == z3.sat:
            vals = extract_model(s.model(), symbols)
            fm = faithful_model(ob) if quant else None
            return Verdict(ob, "refuted", "cvc5+z3-model" if rc == "sat" else "z3-seq", time.time() - t0,
                           model=fm if fm is not None else vals)
        if rc == "sat":
            return Verdict(ob, "candidate", "cvc5", time.time() - t0, model={}, reason="cvc5 reports sat; no model extracted")
        cand = find_candidate(ob, symbols, min(timeout_ms // 4, 5000)) if quant else None
        if cand is not None:
            return Verdict(ob, "candidate", "z3-weakened", time.time() - t0, model=cand,
                           reason="string query undecided by z3 and cvc5; weakened query has a model")
        return Verdict(ob, "unknown", "z3+cvc5", time.time() - t0, reason="string query undecided by z3 and cvc5")
    if not has_quantifier(neg):
        # try the nonlinear-real tactic first on the quantifier-free part of the hypotheses (dropping hypotheses is
        # sound for a proof; a `sat` answer is only trusted when nothing was dropped), then the default solver
        try:
            s2 = z3.Tactic("qfnra-nlsat").solver()
            dropped = False
            for p in ob.pc:
                if has_quantifier(p):
                    dropped = True
                else:
                    s2.add(p)
            s2.add(neg)
            r2 = _check(s2, min(4000, timeout_ms // 5))
            if r2 == z3.unsat or (r2 == z3.sat and not dropped):
                r, s, backend = r2, s2, "z3-nlsat"
        except z3.Z3Exception:
            pass
    if r == z3.unknown:
        r = _check(s, timeout_ms // 4)
        backend = "z3"
    if r == z3.unknown and not quant:
        # nonlinear model search depends on the solver's random choices: two more attempts with other seeds (a `sat`
        # or `unsat` from any attempt is a definite answer about the same formula)
        for sd in (11, 23):
            try:
                s3 = z3.Then(z3.With("simplify", som=True), z3.With("qfnra-nlsat", seed=sd)).solver()
                for p_ in ob.pc:
                    s3.add(p_)
                s3.add(neg)
                r3 = _check(s3, min(4000, timeout_ms // 5))
            except z3.Z3Exception:
                break
            if r3 != z3.unknown:
                r, s, backend = r3, s3, "z3-nlsat(seed %d)" % sd
                break
    if r == z3.unknown:
        rc = cvc5_check(s.to_smt2(), timeout_ms // 4)
        if rc == "unsat":
            return Verdict(ob, "discharged", "cvc5", time.time() - t0)
        # undecided by both back ends: look for a *candidate* counter-model of a weakened query (quantified
        # hypotheses dropped, list lengths bounded).  A candidate is only ever reported as a violation if it
        # reproduces on the real code (native replay); otherwise the obligation stays undecided.
        cand = find_candidate(ob, symbols, min(timeout_ms // 4, 5000)) if quant else None
        if cand is not None:
            return Verdict(ob, "candidate", "z3-weakened", time.time() - t0, model=cand,
                           reason="solver unknown on the full query (%s); cvc5: %s" % (s.reason_unknown(), rc))
        return Verdict(ob, "unknown", "z3+cvc5", time.time() - t0, reason=str(s.reason_unknown()))
    if r == z3.unsat:
        return Verdict(ob, "discharged", backend, time.time() - t0)
    vals = extract_model(s.model(), symbols)
    fm = faithful_model(ob)
    return Verdict(ob, "refuted", backend, time.time() - t0, model=fm if fm is not None else vals)


def has_quantifier(e, memo=None):
    if memo is None:
        memo = {}
    k = e.get_id()
    if k in memo:
        return memo[k]
    if z3.is_quantifier(e):
        memo[k] = True
        return True
    r = any(has_quantifier(c, memo) for c in e.children())
    memo[k] = r
    return r


def ground_universals(e, values, depth=0):
    """Replace universal quantifiers over integers by their instances on `values` (formula must be in NNF)."""
    if z3.is_quantifier(e):
        if not e.is_forall() or depth > 3:
            return None
        nv = e.num_vars()
        if any(e.var_sort(i) != z3.IntSort() for i in range(nv)):
            return None
        import itertools
        insts = []
        for combo in itertools.product(values, repeat=nv):
            body = z3.substitute_vars(e.body(), *[z3.IntVal(v) for v in combo])
            g = ground_universals(body, values, depth + 1)
            if g is None:
                return None
            insts.append(g)
        return z3.And(*insts)
    if z3.is_and(e) or z3.is_or(e):
        ch = []
        for c in e.children():
            g = ground_universals(c, values, depth)
            if g is None:
                return None
            ch.append(g)
        return z3.And(*ch) if z3.is_and(e) else z3.Or(*ch)
    if has_quantifier(e):
        return None
    return e


def find_candidate(ob, symbols, timeout_ms):
    """Model of a bounded approximation: skolemise, then instantiate every remaining universal quantifier on the
    indices -1..4 and bound every symbolic list to length <= 3.  Only used to propose inputs for native replay."""
    try:
        f = z3.And(*(list(ob.pc) + [z3.Not(ob.goal)]))
        g = z3.Goal()
        g.add(f)
        nnf = z3.Tactic("nnf")(g)
        parts = []
        for sub in nnf:
            for c in sub:
                gc = ground_universals(c, list(range(-1, 5)))
                if gc is not None:
                    parts.append(gc)
        s = z3.Solver()
        s.add(*parts)
        for name, sym in symbols.items():
            if hasattr(sym, "arrays"):
                s.add(sym.arrays.n <= 3)
        if limits.check(s, timeout_ms) != z3.sat:
            return None
        return extract_model(s.model(), symbols)
    except z3.Z3Exception:
        return None


def faithful_model(ob, timeout_ms=4000):
    """Counter-model in which the opaque spec functions have their defined meaning (for native replay):
    the definitional equations of every opaque application on the path are added, the formula is skolemised,
    remaining universals are instantiated on small indices and symbolic lists are bounded to length <= 3."""
    apps = ob.meta.get("opaque_apps") or []
    if not apps:
        return None
    try:
        extra = []
        seen = set()
        for (fn, args) in apps:
            eqn = fn.reveal(*args)
            if ops.is_sym(eqn) and eqn.get_id() not in seen:
                seen.add(eqn.get_id())
                extra.append(eqn)
        return _bounded_model(list(ob.pc) + extra + [z3.Not(ob.goal)], ob.symbols, timeout_ms)
    except z3.Z3Exception:
        return None


def _bounded_model(formulas, symbols, timeout_ms):
    g = z3.Goal()
    g.add(z3.And(*formulas))
    nnf = z3.Tactic("nnf")(g)
    parts = []
    for sub in nnf:
        for c in sub:
            gc = ground_universals(c, list(range(-1, 5)))
            if gc is not None:
                parts.append(gc)
    s = z3.Solver()
    s.add(*parts)
    for name, sym in symbols.items():
        if hasattr(sym, "arrays"):
            s.add(sym.arrays.n <= 3)
    if limits.check(s, timeout_ms) != z3.sat:
        return None
    return extract_model(s.model(), symbols)


def extract_model(m, symbols):
    vals = {}
    for name, sym in symbols.items():
        try:
            if hasattr(sym, "model_value"):
                vals[name] = sym.model_value(m)
                continue
            v = m.eval(sym, model_completion=True)
            vals[name] = model_value(v)
        except z3.Z3Exception:
            pass
    return vals


def model_value(v):
    if z3.is_true(v):
        return True
    if z3.is_false(v):
        return False
    if z3.is_int_value(v):
        return v.as_long()
    if z3.is_rational_value(v):
        num, den = v.numerator_as_long(), v.denominator_as_long()
        return {"num": str(num), "den": str(den), "float": num / den}
    if z3.is_algebraic_value(v):
        a = v.approx(20)
        return {"algebraic": str(v), "float": a.numerator_as_long() / a.denominator_as_long()}
    if z3.is_string_value(v):
        return {"str": v.as_string()}
    return {"term": str(v)}


def cvc5_check(smt2, timeout_ms):
    exe = "/usr/bin/cvc5"
    if not os.path.exists(exe):
        return "unknown"
    logic = "(set-logic ALL)\n"
    text = logic + smt2
    if "(check-sat)" not in text:
        text += "\n(check-sat)\n"
    try:
        with tempfile.NamedTemporaryFile("w", suffix=".smt2", delete=False) as fh:
            fh.write(text)
            path = fh.name
        try:
            cpu_s = int(timeout_ms / 1000.0) + 1

            def _cpu_limit():       # CPU budget (load-independent); the wall-clock limits are only a backstop
                import resource
                resource.setrlimit(resource.RLIMIT_CPU, (cpu_s, cpu_s + 1))
            out = subprocess.run([exe, "--strings-exp", "--tlimit=%d" % (timeout_ms * limits.WALL_FACTOR), path],
                                 capture_output=True, text=True, timeout=timeout_ms * limits.WALL_FACTOR / 1000.0 + 5,
                                 preexec_fn=_cpu_limit)
            first = out.stdout.strip().splitlines()[0] if out.stdout.strip() else ""
            if first in ("sat", "unsat"):
                return first
        finally:
            os.unlink(path)
    except (subprocess.TimeoutExpired, OSError):
        pass
    return "unknown"


def dedupe(obligations):
    seen = {}
    out = []
    for ob in obligations:
        key = (ob.name, z3.And(*ob.pc).sexpr() if ob.pc else "", ob.goal.sexpr())
        if key in seen:
            continue
        seen[key] = True
        out.append(ob)
    return out


def verify_contract(program, registry, con, timeout_ms=None, active_cases=None, prefix=None):
    """Returns a JSON-able result dict for one function."""
    t0 = time.time()
    res = {"function": con.qualname, "status": "ok", "obligations": [], "paths": 0, "error": None}
    try:
        finfo = program.func(con.qualname)
        res["lines"] = list(finfo.lines)
        res["file"] = finfo.module.path
        paths, engine, info = run_contract_paths(program, registry, con, active_cases, prefix=prefix)
    except Unsupported as u:
        res["status"] = "unsupported"
        res["error"] = "%s (%s)" % (u, u.where or getattr(u.node, "lineno", "?"))
        res["wall_s"] = time.time() - t0
        return res
    except Exception:  # engine crash
        res["status"] = "crash"
        res["error"] = traceback.format_exc()
        res["wall_s"] = time.time() - t0
        return res
    if engine.unsupported_paths:
        res["status"] = "partial"
        res["error"] = "%s [on %d path(s); the other paths were verified]" % (engine.unsupported_paths[0], len(engine.unsupported_paths))
    res["paths"] = engine.stats.paths
    res["dead_paths"] = engine.stats.dead_paths
    res["branch_queries"] = engine.stats.branch_queries
    res["edges"] = sorted(set("%s -> %s [%s]" % e for e in info["edges"]))
    res["executed"] = sorted(info["executed"])
    res["used_contracts"] = sorted(info["used_contracts"])
    res["assumed"] = sorted(info["assumed"])
    # covers (vacuity)
    covers = {}
    for p in paths:
        for (name, pc) in p.covers:
            if covers.get(name):
                continue
            s = z3.Solver()
            for c in pc:
                s.add(c)
            covers[name] = (limits.check(s, 5000) != z3.unsat)
    res["covers"] = covers
    solver_s = 0.0
    seen_keys = set()
    undecided_count = {}
    refuted_count = {}
    for p in paths:
        if not p.obligations:
            continue
        inc = IncrementalPathSolver(timeout_ms or QUICK_TIMEOUT_MS)
        for ob in p.obligations:
            ob.symbols = p.symbols
            ob.choices = getattr(p, "meta_choices", [])
            ob.meta["opaque_apps"] = getattr(p, "opaque_apps", [])
            key = (ob.name, tuple(c.get_id() for c in ob.pc), ob.goal.get_id())
            if key in seen_keys:
                continue
            seen_keys.add(key)
            if refuted_count.get(ob.name, 0) >= 4 and not ob.meta.get("expected"):
                # enough counter-models of this clause on other paths: report those, do not spend time on more
                res.setdefault("skipped_after_refutation", 0)
                res["skipped_after_refutation"] += 1
                continue
            if undecided_count.get(ob.name, 0) >= (2 if not ob.meta.get("strings") else 6):
                v = Verdict(ob, "unknown", "skipped", 0.0, reason="two instances of this clause are already undecided (time budget)")
            else:
                v = inc.solve(ob)
            if v.status in ("refuted", "candidate") and ob.meta.get("adopted") and not ob.meta.get("expected"):
                # proved under a loop contract adopted from a caller (the loop was moved into a helper): a failure says the
                # adopted contract does not fit this code, not that the property is violated
                v = Verdict(ob, "unknown", v.backend, v.secs, reason="fails under a loop contract adopted from the caller "
                            "(contract/code shape mismatch)")
            if v.status in ("unknown", "candidate"):
                undecided_count[ob.name] = undecided_count.get(ob.name, 0) + 1
            if v.status == "refuted":
                refuted_count[ob.name] = refuted_count.get(ob.name, 0) + 1
            solver_s += v.secs
            rec = {"name": ob.name, "kind": ob.kind, "status": v.status, "backend": v.backend,
                   "secs": round(v.secs, 4), "props": ob.meta.get("props", []), "path": ob.path}
            if ob.meta.get("in"):
                rec["in"] = ob.meta["in"]
            if ob.meta.get("expected"):
                rec["expected"] = ob.meta["expected"]
                rec["case"] = ob.meta.get("case")
            if v.status in ("refuted", "candidate"):
                rec["model"] = v.model
                rec["choices"] = ob.choices
                rec["goal"] = ob.goal.sexpr()[:2000]
            if v.status in ("unknown", "candidate"):
                rec["reason"] = v.reason
            res["obligations"].append(rec)
    res["solver_s"] = round(solver_s, 3)
    res["wall_s"] = round(time.time() - t0, 3)
    return res

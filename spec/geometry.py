"""Set-theoretic reference semantics of regions (oracle for C17/C12/C01), written from the
property statement: closed rectangle, closed disc."""
from pyvc import ops
from pyvc.ops import And, Or, Not, Implies, sq


def clsname(v):
    n = getattr(v, "clsname", None)
    if n is not None:
        return n
    return type(v).__name__


def is_rect(v):
    return clsname(v) == "RectangularRegion"


def is_circle(v):
    return clsname(v) == "CircularRegion"


def rect_contains(r, x, y):
    return And(r.x1 <= x, x <= r.x2, r.y1 <= y, y <= r.y2)


def circle_contains(c, x, y):
    return And(c.r >= 0, sq(x - c.cx) + sq(y - c.cy) <= sq(c.r))


def region_contains(region, x, y):
    if is_rect(region):
        return rect_contains(region, x, y)
    if is_circle(region):
        return circle_contains(region, x, y)
    raise TypeError("not a region: %r" % (region,))


def rect_ok(r):
    return And(r.x1 <= r.x2, r.y1 <= r.y2)

"""C06 / C07 bounded stand-in for the merge of deferred commands END TO END on the real classes (the deductive side sees
the parsed words through the abstract item sequence, which has no counterpart of the parser's extra free-text item '' ):
inside one episode a merge-mode code is sent 1..3 times; on leaving the region exactly one command for it must come out,
reading -- with the independent RS274 reader -- as the code followed by DISTINCT letters carrying the latest value of every
letter seen (a valueless letter stays valueless unless a later command gives it a value).

Space: all sequences of 1..3 (quick) / 1..4 (thorough) commands over 11 spellings of M204 (values 0, decimals, lower case,
repeated letters, one valueless letter, several letters).  Sequences containing a valueless letter are the recorded
finding F18 (case valueless-letter); everything else must hold."""
import itertools
import logging
import sys
from fractions import Fraction

from common import setup, emit

tier, seed, repo = sys.argv[1], int(sys.argv[2]), sys.argv[3]
setup(repo)
from octoprint_excluderegion.ExcludeRegionState import ExcludeRegionState  # noqa: E402
from octoprint_excluderegion.GcodeHandlers import GcodeHandlers  # noqa: E402
from octoprint_excluderegion.RectangularRegion import RectangularRegion  # noqa: E402
from octoprint_excluderegion.ExcludedGcode import ExcludedGcode  # noqa: E402
from spec import rs274  # noqa: E402

LOG = logging.getLogger("verif.bounded")
LOG.addHandler(logging.NullHandler())
LOG.propagate = False
CMDS = ["M204 P500", "M204 T5", "M204 P0", "M204 P1.5 T2", "m204 p7", "M204 S1 P2 T3", "M204 P1 P9", "M204 T0.25", "M204 S-1",
        "M204 P T5", "M204 T"]
MAXK = 3 if tier == "quick" else 4
violations, known, cases = [], [], 0


def reference(seq):
    args = {}
    for c in seq:
        code, params = rs274.command_of(rs274.words(c))
        for (l, v) in params:
            args[l] = v
    return args


for k in range(1, MAXK + 1):
    for seq in itertools.product(CMDS, repeat=k):
        cases += 1
        st = ExcludeRegionState(LOG)
        st.addRegion(RectangularRegion(x1=40, y1=40, x2=60, y2=60, id="r"))
        st.extendedExcludeGcodes = {"M204": ExcludedGcode("M204", "merge", "")}
        h = GcodeHandlers(st, LOG)
        for c in ("G28", "G90", "G1 X10 Y10 F3000", "G1 X50 Y50"):
            h.handleGcode(c, c.split()[0])
        withheld = all(h.handleGcode(c, "M204") == (None,) for c in seq)
        out = h.handleGcode("G1 X10 Y10", "G1") or []
        merged = [o for o in out if isinstance(o, str) and o.upper().startswith("M204")]
        why = None
        if not withheld:
            why = "a merge-mode command was not withheld inside the episode"
        elif len(merged) != 1:
            why = "%d commands for the code on leaving the region: %r" % (len(merged), out)
        else:
            code, params = rs274.command_of(rs274.words(merged[0]))
            want = reference(seq)
            got = dict(params)
            if code != "M204" or not rs274.distinct_letters(params):
                why = "merged command %r does not read as one code with distinct letters" % merged[0]
            elif set(got) != set(want) or any((got[l] is None) != (want[l] is None) or (want[l] is not None and Fraction(got[l]) != Fraction(want[l])) for l in want):
                why = "merged command %r carries %r, latest values are %r" % (merged[0], got, want)
        if why:
            item = {"clause": "C06.merged-command", "input": " | ".join(seq), "detail": why}
            valueless = any(v is None for c in seq for (_, v) in rs274.command_of(rs274.words(c))[1])
            if valueless:
                item["obligation"] = "bounded/C06.merged-command"
                item["case"] = "valueless-letter"
                known.append(item)
            else:
                violations.append(item)
emit({"name": "bounded/merge-roundtrip", "bounded": True,
      "bound": "all sequences of 1..%d commands over %d spellings of a merge-mode code, one episode each" % (MAXK, len(CMDS)),
      "cases": cases, "distinct_nontrivial": cases, "exhaustive": True, "rule": "a case is one sequence of merge-mode commands inside one episode",
      "samples": ["M204 P500 | M204 T5 -> M204 P500.0 T5.0"], "violations": violations[:20], "n_violations": len(violations),
      "known": known[:3], "n_known": len(known)})

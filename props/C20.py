from props.common import *
from props.boundedrun import script
ID = "C20"
LEVEL = "other"
TAGS = ("C20",)
CONTRACT_MODULES = ALL_CONTRACTS
SP = "StreamProcessor.StreamProcessor."
FUNCTIONS = [SP + "process_line", SP + "__init__", H + "handleGcode", P + "handleGcodeQueuing", P + "handleAtCommandQueuing",
             "GcodeParser.GcodeParser.parse"]
ASSUMPTIONS = ["A2", "A3", "A4", "A6"]
BOUNDED = [script("stream_twin.py")]
EXTRA_ASSUMPTIONS = ["the parser is seen through an abstract view of a parsed line (eol, text, type, gcode, sub-code and normalised command are uninterpreted functions of the line); that the fields of the re-used parser object describe the current line only -- whatever the previous line left behind -- is the clause C18.fields-describe-this-line-only of parse(), discharged in this check too; the rest of the parser's behaviour is the subject of C18/C19",
                     "process_line is verified for handler results None / IGNORE_GCODE_CMD / lists of 1..3 symbolic commands and 0..2 commands sent by an @-command (bounded in these lengths only)",
                     "LineProcessorStream.read handing BYTES to process_line is outside the contract"]
EXPLANATION = ("Deductive part: process_line(line) delegates exactly once to handleGcode(normalised(line), gcode(line), subcode(line)) on "
               "the processor's own handlers -- the same arguments the live hook forwards (clause C11/C20 active-delegates-once) -- and "
               "composes the result as the property states: None => the line itself (the very same string object), IGNORE => None, a "
               "list => eol.join(list)+eol with the file's line ending (last seen, default LF); @-lines likewise through the captured "
               "comm buffer; other lines verbatim. StreamProcessor.__init__ works on a deep copy: no mutable object is shared with the "
               "live state, which is not written. Bounded part: line-for-line comparison with a twin of the live handlers on generated "
               "files (coverage.bounded).")
TECHNIQUE = "contract on process_line over an abstract parsed-line view + callee delegation contracts (z3 strings); bounded differential against a twin of the live handlers"
BREAKERS = [{'desc': 'last emitted line not terminated',
  'functions': ['StreamProcessor.StreamProcessor.process_line'],
  'module': 'StreamProcessor',
  'new': '            if (lines):\n                return self.eol.join(lines)',
  'old': '            if (lines):\n                return self.eol.join(lines) + self.eol'},
 {'desc': 'processor shares the live state',
  'functions': ['StreamProcessor.StreamProcessor.__init__'],
  'module': 'StreamProcessor',
  'new': '            gcodeHandlers.state,',
  'old': '            copy.deepcopy(gcodeHandlers.state),'},
 {'desc': 'line ending frozen at the first line',
  'functions': ['StreamProcessor.StreamProcessor.process_line'],
  'module': 'StreamProcessor',
  'new': '        if (parsed.eol and self._eol is None):\n            self.eol = parsed.eol',
  'old': '        if (parsed.eol):\n            self.eol = parsed.eol'},
 {'bounded': True,
  'desc': "pass-through returns the parser's current source (original F13)",
  'functions': ['StreamProcessor.StreamProcessor.process_line'],
  'module': 'StreamProcessor',
  'new': '        return parsed.source\n\n    @staticmethod',
  'old': '        return source\n\n    @staticmethod'}]

"""C14 bounded stand-in for the DEFAULT configuration (get_settings_defaults): with the default @-command actions,
`@ExcludeRegion <parameters>` enables exclusion exactly for the keyword enable/on, disables it exactly for disable/off
(leading blanks allowed, anything after a blank ignored) and every other parameter text matches no action; the default
deferral table has the documented modes.

Space: 8 keywords-with-decoration per action plus 40 non-matching parameter texts (words that merely begin with or
contain a keyword, other words, empty text, None) -- each through the real AtCommandAction objects built from the real
defaults and through GcodeHandlers.handleAtCommand on a real state."""
import logging
import sys

from common import setup, emit

tier, seed, repo = sys.argv[1], int(sys.argv[2]), sys.argv[3]
setup(repo)
from octoprint_excluderegion import ExcludeRegionPlugin  # noqa: E402
from octoprint_excluderegion.AtCommandAction import AtCommandAction  # noqa: E402
from octoprint_excluderegion.ExcludeRegionState import ExcludeRegionState  # noqa: E402
from octoprint_excluderegion.GcodeHandlers import GcodeHandlers  # noqa: E402

plugin = ExcludeRegionPlugin.__new__(ExcludeRegionPlugin)
defaults = plugin.get_settings_defaults()
actions = [AtCommandAction(a["command"], a["parameterPattern"], a["action"], a["description"]) for a in defaults["atCommandActions"]]
ENABLE = ["enable", "on", " enable", "  on", "enable now", "on please", "enable\t", "on "]
DISABLE = ["disable", "off", " disable", "  off", "disable now", "off please", "disable\t", "off "]
OTHER = [None, "", " ", "enabled", "online", "only layer 3", "onward", "offset 0.2", "office", "offline", "disabled", "disables",
         "enabler", "re-enable", "turn on", "turn off", "x on", "1 off", "ON", "OFF", "Enable", "Disable", "o n", "of f", "en able",
         "enable_", "on_", "off_", "disable-", "on=1", "off=1", "status", "toggle", "0", "1", "true", "false", "yes", "no", "-"]
violations, cases = [], 0


class Comm(object):
    def __init__(self):
        self.sent = []

    def isStreaming(self):
        return False

    def sendCommand(self, c, **kw):
        self.sent.append(c)


def expect(params, want):
    """want: 'enable' | 'disable' | None"""
    global cases
    cases += 1
    for start_enabled in (True, False):
        st = ExcludeRegionState(logging.getLogger("bounded"))
        st.atCommandActions = {"ExcludeRegion": list(actions)}
        st._exclusionEnabled = start_enabled
        h = GcodeHandlers(st, logging.getLogger("bounded"))
        res = h.handleAtCommand(Comm(), "ExcludeRegion", params)
        after = st.isExclusionEnabled()
        exp_after = start_enabled if want is None else (want == "enable")
        if after != exp_after or bool(res) != (want is not None):
            violations.append({"clause": "C14.default-action-patterns", "input": repr(params),
                               "detail": "started %s: handled=%r enabled afterwards=%r, expected handled=%r enabled=%r"
                                         % ("enabled" if start_enabled else "disabled", res, after, want is not None, exp_after)})
            return


for p in ENABLE:
    expect(p, "enable")
for p in DISABLE:
    expect(p, "disable")
for p in OTHER:
    expect(p, None)
modes = dict((e["gcode"], e["mode"]) for e in defaults["extendedExcludeGcodes"])
cases += 1
want_modes = {"G4": "exclude", "M204": "merge", "M205": "merge", "M117": "last", "M73": "merge"}
if modes != want_modes:
    violations.append({"clause": "C06.default-deferral-table", "input": "get_settings_defaults()", "detail": "modes %r, documented %r" % (modes, want_modes)})
emit({"name": "bounded/default-actions", "bounded": True,
      "bound": "%d enabling, %d disabling and %d non-matching parameter texts x {enabled, disabled} start; the default deferral table"
               % (len(ENABLE), len(DISABLE), len(OTHER)),
      "cases": cases, "distinct_nontrivial": cases, "exhaustive": True, "rule": "a case is one parameter text",
      "samples": ["'offset 0.2' -> no action", "' on please' -> enable"], "violations": violations[:20], "n_violations": len(violations)})

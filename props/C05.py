from props.common import *
from props.boundedrun import script
ID = "C05"
LEVEL = "proof"
TAGS = ("C05",)
CONTRACT_MODULES = ALL_CONTRACTS
FUNCTIONS = [S + "processLinearMoves", "RetractionState.RetractionState._addCommands", H + "_handle_G10", H + "_handle_G11",
             S + "exitExcludedRegion", S + "isAnyPointExcluded", H + "_handle_G92", H + "_handle_G28", H + "_handle_G20", H + "_handle_G21", H + "_handle_G90", H + "_handle_G91", H + "_handle_M206", S + "enterExcludedRegion"] + [S + "resetState"] + [P + "on_event"]
ASSUMPTIONS = ["A1", "A2", "A3", "A4", "A5", "INDUCTION"]
BOUNDED = [script("retract_params.py")]
EXTRA_ASSUMPTIONS = ["GCODE_PARAMS_REGEX.sub is seen as the uninterpreted function 'parameter text of the command'; that the regex computes it is checked bounded (coverage.bounded: bounded/retract-params)",
                     "domain ghost of the property: matched retract/recover cycles of one length L (E-only commands alternate -L / +L), moves extrude only "
                     "at file depth 0, absolute extrusion; or firmware retraction only (G10/G11, file flag ghost); the two kinds are not mixed",
                     "'deepest retraction the file has requested so far' is the ghost maxF (running maximum of the file depth)"]
EXPLANATION = ("Software retractions: the coupling invariant depth_inv (no recorded retraction: printer and file depth 0; recorded: both L; "
               "recorded with the file's recovery skipped inside a region: file 0, printer L; printer depth between the file's depth and "
               "maxF) is preserved by processLinearMoves for every in-domain command, where the printer depth is read off the ghost "
               "reference printer (high-water mark minus filament position) after running the RETURNED commands; when the forwarded "
               "command is an extruding move the depth at that moment equals the file's (the owed recovery ran exactly once before it). "
               "_addCommands: the generated pair moves the filament by exactly the recorded amount and leaves the E register at the "
               "tracked value. Firmware retractions: the parity invariant (printer flag = file flag or recovery owed) is preserved by "
               "_handle_G10/_handle_G11 and the emitted G10/G11 carries the original parameter text. " + STREAM_NOTE)
BREAKERS = [{'desc': 'firmware retract/recover swapped',
  'functions': ['RetractionState.RetractionState._addCommands', 'GcodeHandlers.GcodeHandlers._handle_G10'],
  'module': 'RetractionState',
  'new': '            cmd = "G11" if (direction == 1) else "G10"',
  'old': '            cmd = "G11" if (direction == -1) else "G10"'},
 {'desc': 'owed-recovery flag is not cleared by the next retraction (recovered twice)',
  'functions': ['ExcludeRegionState.ExcludeRegionState.processLinearMoves', 'GcodeHandlers.GcodeHandlers._handle_G10'],
  'module': 'ExcludeRegionState',
  'new': '            if (not self.lastRetraction.firmwareRetract):',
  'old': '            self.lastRetraction.recoverExcluded = False\n            if (not self.lastRetraction.firmwareRetract):'},
 {'desc': 'a recovery skipped inside a region is never owed',
  'functions': ['ExcludeRegionState.ExcludeRegionState.processLinearMoves', 'GcodeHandlers.GcodeHandlers._handle_G11'],
  'module': 'ExcludeRegionState',
  'new': '                if (isRecoveryCommand):\n                    pass',
  'old': '                if (isRecoveryCommand):\n                    self.lastRetraction.recoverExcluded = True'},
 {'desc': 'owed recovery computed from the advanced E (original F6)',
  'functions': ['ExcludeRegionState.ExcludeRegionState.processLinearMoves'],
  'module': 'ExcludeRegionState',
  'new': '            returnCommands = self.recoverRetractionIfNeeded(cmd, False)',
  'old': '            eAxis.current = priorE\n'
         '            returnCommands = self.recoverRetractionIfNeeded(cmd, False)\n'
         '            eAxis.current = extruderPosition'},
 {'desc': 'retraction pair moves twice the recorded amount',
  'functions': ['RetractionState.RetractionState._addCommands', 'ExcludeRegionState.ExcludeRegionState.processLinearMoves'],
  'module': 'RetractionState',
  'new': '            amount = self.extrusionAmount * direction * 2',
  'old': '            amount = self.extrusionAmount * direction'}]

"""Regular expressions: the contract of the C regex engine is derived mechanically from the pattern text in the real
source (re._parser.parse).  This module translates the parse tree to a z3 regular expression (used for the totality
lemma); DESIGN.md 2.6.  Assumption: the digit class is ASCII 0-9 (A2)."""
import re._parser as sp
import re._constants as sc

import z3

from . import limits


def char(c):
    return z3.Re(z3.StringVal(chr(c)))


def klass(items):
    neg = False
    parts = []
    for op, av in items:
        if op == sc.NEGATE:
            neg = True
        elif op == sc.LITERAL:
            parts.append(char(av))
        elif op == sc.RANGE:
            parts.append(z3.Range(chr(av[0]), chr(av[1])))
        elif op == sc.CATEGORY:
            if av == sc.CATEGORY_DIGIT:
                parts.append(z3.Range("0", "9"))
            elif av == sc.CATEGORY_SPACE:
                parts.append(z3.Union(*[char(ord(x)) for x in " \t\n\r\f\v"]))
            else:
                raise NotImplementedError("category %r" % (av,))
        else:
            raise NotImplementedError("class item %r" % (op,))
    u = parts[0] if len(parts) == 1 else z3.Union(*parts)
    if neg:
        any1 = z3.AllChar(z3.ReSort(z3.StringSort()))
        return z3.Intersect(any1, z3.Complement(u))
    return u


EPS = None


def eps():
    return z3.Re(z3.StringVal(""))


def translate(tree, stop_at_end_anchor=True):
    """sre parse tree -> z3 regex.  AT_END_STRING is translated to epsilon and reported through `anchors`."""
    parts = []
    for op, av in tree:
        if op == sc.LITERAL:
            parts.append(char(av))
        elif op == sc.IN:
            parts.append(klass(av))
        elif op == sc.ANY:
            parts.append(z3.AllChar(z3.ReSort(z3.StringSort())))
        elif op == sc.SUBPATTERN:
            parts.append(translate(av[3]))
        elif op in (sc.MAX_REPEAT, sc.MIN_REPEAT):
            lo, hi, sub = av
            r = translate(sub)
            if hi == sc.MAXREPEAT:
                parts.append(z3.Star(r) if lo == 0 else (z3.Plus(r) if lo == 1 else z3.Concat(z3.Loop(r, lo, lo), z3.Star(r))))
            elif (lo, hi) == (0, 1):
                parts.append(z3.Option(r))
            else:
                parts.append(z3.Loop(r, lo, hi))
        elif op == sc.BRANCH:
            alts = [translate(b) for b in av[1]]
            parts.append(z3.Union(*alts) if len(alts) > 1 else alts[0])
        elif op == sc.AT:
            if av in (sc.AT_END_STRING, sc.AT_BEGINNING_STRING, sc.AT_BEGINNING):
                parts.append(eps())
            else:
                raise NotImplementedError("anchor %r" % (av,))
        else:
            raise NotImplementedError("regex op %r" % (op,))
    if not parts:
        return eps()
    return parts[0] if len(parts) == 1 else z3.Concat(*parts)


def line_pattern_lemmas(pattern_text, timeout_ms=60000):
    """Totality and progress of the G-code line pattern, from the pattern text.
    The pattern must have the shape  BODY (EOL1|EOL2|...|\\Z)  (checked)."""
    import time
    tree = sp.parse(pattern_text)
    items = list(tree)
    last = items[-1]
    assert last[0] == sc.SUBPATTERN, "pattern must end with the EOL group"
    br = list(last[1][3])
    assert len(br) == 1 and br[0][0] == sc.BRANCH, "EOL group must be an alternation"
    alts = br[0][1][1]
    eol_alts, has_end = [], False
    for a in alts:
        a = list(a)
        if len(a) == 1 and a[0][0] == sc.AT and a[0][1] == sc.AT_END_STRING:
            has_end = True
        else:
            eol_alts.append(translate(a))
    body = translate(items[:-1])
    full = z3.Full(z3.ReSort(z3.StringSort()))
    t = z3.String("rest")
    out = []
    # totality: every remaining text starts with a match (BODY EOL ...) or is itself BODY (\Z alternative)
    lang = z3.Concat(body, z3.Union(*eol_alts) if len(eol_alts) > 1 else eol_alts[0], full)
    if has_end:
        lang = z3.Union(lang, body)
    s = z3.Solver()
    s.add(z3.Not(z3.InRe(t, lang)))
    t0 = time.time()
    r = limits.check(s, timeout_ms)
    out.append({"name": "GcodeParser.REGEX_GCODE_LINE/C18.pattern-matches-at-every-offset", "kind": "lemma",
                "status": "discharged" if r == z3.unsat else ("refuted" if r == z3.sat else "unknown"), "backend": "z3-seq",
                "secs": round(time.time() - t0, 3), "props": ["C18"],
                "model": {"rest": s.model()[t].as_string()} if r == z3.sat else None})
    # non-vacuity: without the catch-all alternative the same query must be satisfiable (checked on a copy of the
    # tree with the second alternative of group 2 removed is pattern specific; instead: the language is not trivially full)
    s2 = z3.Solver()
    s2.add(z3.InRe(t, z3.Concat(body, z3.Union(*eol_alts))), z3.Length(t) > 3)
    out.append({"name": "GcodeParser.REGEX_GCODE_LINE/C18.pattern-cover", "kind": "cover", "status": "discharged" if limits.check(s2, timeout_ms) == z3.sat else "unknown",
                "backend": "z3-seq", "secs": 0.0, "props": ["C18"]})
    # progress: the empty string is matched only through the \Z alternative (every other EOL alternative is non-empty)
    e = z3.String("eol")
    s3 = z3.Solver()
    s3.add(z3.InRe(e, z3.Union(*eol_alts)), z3.Length(e) == 0)
    t0 = time.time()
    r3 = limits.check(s3, timeout_ms)
    out.append({"name": "GcodeParser.REGEX_GCODE_LINE/C18.progress-empty-match-only-at-end", "kind": "lemma",
                "status": "discharged" if r3 == z3.unsat else ("refuted" if r3 == z3.sat else "unknown"), "backend": "z3-seq",
                "secs": round(time.time() - t0, 3), "props": ["C18"]})
    return out


# ----------------------------------------------------------------------------------------------
# structural contract of pattern.match(source, pos)  (DESIGN.md 2.6)
class Derivation(object):
    def __init__(self, ctx):
        self.ctx = ctx
        self.cons = []
        self.groups = {}       # index -> (present Bool term, value String term)
        self.end_anchor = []   # conditions under which the match must end at the end of the source

    def fresh_str(self, tag):
        return z3.String(self.ctx.fresh_name("rx." + tag))

    def fresh_bool(self, tag):
        return z3.Bool(self.ctx.fresh_name("rx." + tag))


def _has_group(tree):
    for op, av in tree:
        if op == sc.SUBPATTERN:
            return True
        if op in (sc.MAX_REPEAT, sc.MIN_REPEAT) and _has_group(av[2]):
            return True
        if op == sc.BRANCH and any(_has_group(b) for b in av[1]):
            return True
    return False


def _has_anchor(tree):
    for op, av in tree:
        if op == sc.AT:
            return True
        if op == sc.SUBPATTERN and _has_anchor(av[3]):
            return True
        if op in (sc.MAX_REPEAT, sc.MIN_REPEAT) and _has_anchor(av[2]):
            return True
        if op == sc.BRANCH and any(_has_anchor(b) for b in av[1]):
            return True
    return False


def derive(tree, d, guard):
    """Value (String term) of one derivation of `tree`; constraints are added to d.cons under `guard`."""
    items = list(tree)
    if not _has_group(items) and not _has_anchor(items):
        # no captures inside: the value is just some member of the sub-language
        s = d.fresh_str("s")
        d.cons.append(z3.Implies(guard, z3.InRe(s, translate(items))))
        return s
    vals = []
    for op, av in items:
        one = [(op, av)]
        if op == sc.SUBPATTERN:
            v = derive(av[3], d, guard)
            if av[0] is not None:
                d.groups[av[0]] = (guard, v)
            vals.append(v)
        elif op in (sc.MAX_REPEAT, sc.MIN_REPEAT):
            lo, hi, sub = av
            if (lo, hi) == (0, 1):
                used = d.fresh_bool("opt")
                v = derive(sub, d, z3.And(guard, used))
                vals.append(z3.If(used, v, z3.StringVal("")))
            elif not _has_group(sub) and not _has_anchor(sub):
                s = d.fresh_str("rep")
                d.cons.append(z3.Implies(guard, z3.InRe(s, translate(one))))
                vals.append(s)
            else:
                raise NotImplementedError("capture group inside an unbounded repeat")
        elif op == sc.BRANCH:
            alts = av[1]
            choice = z3.Int(d.ctx.fresh_name("rx.alt"))
            d.cons.append(z3.Implies(guard, z3.And(choice >= 0, choice < len(alts))))
            v = z3.StringVal("")
            for i in range(len(alts) - 1, -1, -1):
                vi = derive(alts[i], d, z3.And(guard, choice == i))
                v = z3.If(choice == i, vi, v)
            vals.append(v)
        elif op == sc.AT:
            if av == sc.AT_END_STRING:
                d.end_anchor.append(guard)
                vals.append(z3.StringVal(""))
            else:
                raise NotImplementedError("anchor %r" % (av,))
        else:
            s = d.fresh_str("c")
            d.cons.append(z3.Implies(guard, z3.InRe(s, translate(one))))
            vals.append(s)
    if not vals:
        return z3.StringVal("")
    return vals[0] if len(vals) == 1 else z3.Concat(*vals)


class MatchModel(object):
    pass


def structural_match(interp, pattern, source, pos, node):
    """pattern.match(source, pos): an over-approximation of the engine -- SOME derivation of the pattern covers
    source[pos:pos+len]; which one (greedy/lazy priorities) is not modelled, so what is proved holds for every
    derivation.  That a match exists at all is the separate totality lemma (C18.pattern-matches-at-every-offset)."""
    from .values import Model, Opt, Unsupported
    ctx = interp.ctx
    if ctx.pure:
        from .values import NotPure
        raise NotPure()
    src = z3.StringVal(source) if isinstance(source, str) else source
    p = z3.IntVal(pos) if isinstance(pos, int) else pos
    d = Derivation(ctx)
    try:
        whole = derive(sp.parse(pattern), d, z3.BoolVal(True))
    except NotImplementedError as e:
        raise Unsupported("regex construct outside the structural contract: %s" % e, node)
    ctx.assumed.add("A2:re: pattern.match(s, pos) returns a match whose groups form a derivation of the pattern over s[pos:end] "
                    "(structural contract derived from the pattern text; priorities not modelled)")
    n = z3.Length(whole)
    ctx.assume(z3.And(*d.cons), definitional=True)
    ctx.assume(z3.And(p >= 0, p + n <= z3.Length(src), z3.SubString(src, p, n) == whole), definitional=True)
    for g in d.end_anchor:
        ctx.assume(z3.Implies(g, p + n == z3.Length(src)), definitional=True)
    ctx.ghost.setdefault("rx.matches", []).append({"whole": whole, "pos": p, "n": n, "source": src, "groups": dict(d.groups)})

    class _Match(Model):
        clsname = "re.Match"

        def call_method(self_m, interp2, name, args, kwargs, node2):
            if name == "group":
                i = args[0] if args else 0
                if i == 0:
                    return whole
                if i not in d.groups:
                    raise Unsupported("group %r of the pattern" % (i,), node2)
                present, v = d.groups[i]
                if z3.is_true(z3.simplify(present)):
                    return v
                return Opt(z3.Not(present), v, kind="str")
            if name == "start" and not args:
                return p
            if name == "end" and not args:
                return p + n
            if name == "__bool__":
                return True
            raise Unsupported("match.%s" % name, node2)
    return _Match()

#!/usr/bin/env python3
import json, sys
def short(v):
    if isinstance(v, dict):
        if 'float' in v: return v['float']
        if 'str' in v: return v['str']
        if 'realseq' in v: return [short(x) for x in v['realseq']]
        if 'regionlist' in v: return [{'rect':e['rect'],'p':[short(x) for x in e['p']]} for e in v['regionlist']]
    return v
for fn in sys.argv[1:]:
    r = json.load(open(fn))
    print("=" * 100); print(r['obligation'], ' path', r.get('path'))
    m = r.get('model') or {}
    skip = ('homeOffset', 'offset', 'numCommands', 'numExcluded', 'P.hw', 'g90')
    print(' model:', {k: short(v) for k, v in m.items() if not any(s in k for s in skip)})
    n = r.get('native') or {}
    print(' native: reproduced=%s pre=%s %s' % (n.get('reproduced'), n.get('pre_holds_natively'), n.get('detail')))
    if n.get('pre_false'): print('   pre_false', n.get('pre_false'), n.get('pre_errors'))
    if n.get('traceback'): print('   tb', n.get('traceback'))
    if n.get('clause_traceback'): print('   ctb', n.get('clause_traceback'))
    print(' result:', n.get('result'), ' raised:', n.get('raised'))
    sa = (n.get('state_after') or {}).get('self') or {}
    def pos(p): return {k[0]: (p[k] or {}).get('current') for k in ('X_AXIS','Y_AXIS','Z_AXIS','E_AXIS')} if p else None
    if 'position' in sa:
        print(' after: pos', pos(sa.get('position')), 'lastPos', pos(sa.get('lastPosition')), 'excluding', sa.get('excluding'), 'LR', sa.get('lastRetraction'))

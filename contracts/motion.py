"""Contracts for the motion / retraction core of ExcludeRegionState and RetractionState:
C01 C02 C03 C04 C05 C06(order) C09 C14 C15."""
from pyvc.contracts import contract
from pyvc import ops
from pyvc.ops import And, Or, Not, Implies, Iff, If, eq, is_none, val, ForAll, Exists, str_eq, Max
from spec import registry as R
from spec import axis as A
from spec import refprinter as RP
from spec import rs274
from contracts.axis import mk_axis, mk_position
from contracts.state import mk_state, mk_retraction

S = "ExcludeRegionState.ExcludeRegionState."


# ------------------------------------------------------------------------------------ pre-state
def mk_printer(b, name="P"):
    return RP.Printer(b.real(name + ".x"), b.real(name + ".y"), b.real(name + ".z"), b.real(name + ".e"),
                      fil=b.real(name + ".fil"), hw=b.real(name + ".hw"), fw=b.bool(name + ".fw"))


def mk_motion_state(b, **o):
    opts = dict(enter="any", exit="any", position="some", lastRetraction="any", lastPosition="any")
    opts.update(o)
    if "pending" not in opts:
        opts["pending"] = b.ordmap("pending")
    return mk_state(b, **opts)


def axes(pos):
    return (pos.X_AXIS, pos.Y_AXIS, pos.Z_AXIS, pos.E_AXIS)


def inv_type(st):
    """I-type: one unit for all axes and the feed rate (G20/G21 set them together); X/Y/Z share the positioning
    mode (G90/G91 set them together); all positions known (homed)."""
    pos = st.position
    u = st.feedRateUnitMultiplier
    return And(Or(eq(u, 1), eq(u * 5, 127)),
               *([eq(ax.unitMultiplier, u) for ax in axes(pos)] +
                 [Iff(pos.X_AXIS.absoluteMode, pos.Y_AXIS.absoluteMode), Iff(pos.X_AXIS.absoluteMode, pos.Z_AXIS.absoluteMode)] +
                 [Not(is_none(ax.current)) for ax in axes(pos)]))


def retraction_ok(lr):
    """Type invariant established by RetractionState.__init__: amount/feed rate are None exactly for firmware
    retractions; a recorded amount is positive (it is -deltaE of a retraction)."""
    if lr is None:
        return True
    return Implies(Not(is_none(lr)), And(
        Iff(lr.firmwareRetract, is_none(lr.extrusionAmount)), Iff(lr.firmwareRetract, is_none(lr.feedRate)),
        Implies(Not(lr.firmwareRetract), (val(lr.extrusionAmount) > 0) if lr.extrusionAmount is not None else False)))


def inv_excl(st):
    """I-excl: an open episode implies exclusion enabled, a remembered entry position and start time."""
    lp_ok = Not(is_none(st.lastPosition))
    return And(Implies(st.excluding, And(st._exclusionEnabled, lp_ok, Not(is_none(st.excludeStartTime)))),
               Implies(Not(st.excluding), pending_empty(st)))


def pending_empty(st):
    pc = st.pendingCommands
    if hasattr(pc, "is_empty"):
        return pc.is_empty()
    return len(pc) == 0


def inv_lastpos(st, P):
    """While an episode is open the remembered entry position is the printer's physical position (the printer
    has not moved since)."""
    lp = st.lastPosition
    if lp is None:
        return Not(st.excluding)
    pos = st.position
    return Implies(st.excluding, And(Not(is_none(lp)),
        Not(is_none(lp.Z_AXIS.current)), Not(is_none(lp.X_AXIS.current)), Not(is_none(lp.Y_AXIS.current)),
        eq(val(lp.X_AXIS.current), P.x), eq(val(lp.Y_AXIS.current), P.y), eq(val(lp.Z_AXIS.current), P.z)))


def inv_pos(st, P):
    """I-pos / I-E: outside an episode the printer is where the filter believes it is."""
    pos = st.position
    return Implies(Not(st.excluding), And(eq(P.x, val(pos.X_AXIS.current)), eq(P.y, val(pos.Y_AXIS.current)),
                                          eq(P.z, val(pos.Z_AXIS.current))))


def inv_e(st, P):
    """I-E: outside an episode the printer's E register holds the extruder coordinate the file assumes.
    (Maintained on the C04 domain: matched retract/recover cycles; see unmatched_recovery.)"""
    return Implies(Not(st.excluding), eq(P.e, val(st.position.E_AXIS.current)))


def inv_all(st, P):
    return And(inv_type(st), retraction_ok(st.lastRetraction), inv_excl(st), inv_lastpos(st, P), inv_pos(st, P))


def tracked_xyz(st):
    pos = st.position
    return (val(pos.X_AXIS.current), val(pos.Y_AXIS.current), val(pos.Z_AXIS.current))


def at_tracked(P, st):
    x, y, z = tracked_xyz(st)
    return And(eq(P.x, x), eq(P.y, y), eq(P.z, z))


# ------------------------------------------------------------------------------------ RetractionState
def first_code(item):
    parts = RP.item_parts(item)
    if parts is None:
        return None
    code, _ = rs274.command_of(rs274.rope_words(parts))
    return code


@contract("RetractionState.RetractionState._addCommands")
def _(c):
    def pre(b):
        d = [1, -1][b.choose(2, "direction")]
        pos = mk_position(b, "pos", known=True)
        return {"self": mk_retraction(b, "R"), "args": {"direction": d, "position": pos},
                "ghost": {"P": mk_printer(b)}}
    c.pre(pre)
    c.requires("retraction-type-invariant", lambda f: retraction_ok(f.self))
    c.requires("unit-nonzero", lambda f: Not(eq(f.a.position.E_AXIS.unitMultiplier, 0)))
    c.modifies()       # semantic frame: the tracked position is restored on exit

    def effect(f):
        """Run on any printer: a retraction (dir=1) pulls the filament back by the recorded amount, a recovery
        pushes it; afterwards the printer's E register equals the tracked E; X/Y/Z untouched."""
        P = f.g["P"]
        Q, log = RP.run(P, f.a.position, f.result, None, None)
        E = val(f.a.position.E_AXIS.current)
        d = f.a.direction
        fw_case = And(Iff(Q.fw, d == 1), eq(Q.fil, P.fil), eq(Q.e, P.e), len(RP.items_of(f.result)) == 1,
                      first_code(f.result[0]) == ("G10" if d == 1 else "G11"))
        sw_case = And(eq(Q.e, E), eq(Q.fil, P.fil - val(f.self.extrusionAmount) * d), Iff(Q.fw, P.fw),
                      len(RP.items_of(f.result)) == 2)
        return And(RP.same_xyz(P, Q), If(f.self.firmwareRetract, fw_case, sw_case))
    c.ensures("C05.retract-recover-effect", effect, props=("C04", "C05", "C01"))
    c.ensures("C05.firmware-keeps-parameters", lambda f: Implies(f.self.firmwareRetract, fw_params_kept(f)),
              props=("C05",))


def fw_params_kept(f):
    """G10/G11 carry the parameter text of the original command (nothing when there was none)."""
    item = f.result[0]
    params = rs274.params_text(f.self.originalCommand)
    head = "G10" if f.a.direction == 1 else "G11"
    if isinstance(item, str) and isinstance(params, str):
        return item == (head + (" " + params if params else ""))
    parts = RP.item_parts(item)
    if parts is None:
        return False
    if len(parts) == 1:
        return And(parts[0] == head, str_eq(params, ""))
    if len(parts) != 2 or parts[0] != head + " " or not ops.is_sym(parts[1]):
        return False
    return And(str_eq(parts[1], params), Not(str_eq(params, "")))


# ------------------------------------------------------------------------------------ enter / exit
@contract(S + "enterExcludedRegion")
def _(c):
    c.pre(lambda b: {"self": mk_motion_state(b, lastRetraction="opaque", exit="opaque"), "args": {"cmd": b.string("cmd")}})
    c.requires("exclusion-enabled", lambda f: f.self._exclusionEnabled)       # the assert in the body
    c.modifies("self.excluding", "self.excludeStartTime", "self.numExcludedCommands", "self.numCommands",
               "self.lastPosition")

    def post(f):
        old, new = f.old.self, f.self
        from contracts.plugin import deep_eq
        lp = new.lastPosition
        entered = And(new.excluding, Not(is_none(new.excludeStartTime)), eq(new.numCommands, 0),
                      eq(new.numExcludedCommands, 0), Not(is_none(lp)),
                      deep_eq(lp, new.position) if lp is not None else False,
                      lp is not new.position,
                      script_is(f.result, old.enteringExcludedRegionGcode))
        return If(old.excluding, And(len(RP.items_of(f.result)) == 0, f.unchanged()), entered)
    c.ensures("C06.enter-script-once", post, props=("C06", "C01", "C03"))

    def fresh_list(f):
        """Callers extend the returned list (retraction commands of the entering move), so it must be a new list -- never
        the configured script object itself, which would then grow with every episode and survive every reset."""
        scripts = (f.self.exitingExcludedRegionGcode, f.self.enteringExcludedRegionGcode)
        return all(f.result is not s_ for s_ in scripts if s_ is not None)
    c.ensures("C06.result-does-not-alias-the-configured-script", fresh_list, props=("C06", "C10", "C15", "C05", "C04"))


def script_is(result, script):
    """result is exactly the configured script (one splice) or empty when none is configured."""
    items = RP.items_of(result)
    if script is None:
        return len(items) == 0
    if isinstance(script, list):      # native
        return items == script
    return len(items) == 1 and getattr(items[0], "seq", None) is script


def z_order_ok(P, Pfinal, log, tracked_z):
    """C03: the re-positioning travel happens at max(previous Z, target Z): a Z move precedes the XY move iff the
    target is higher, follows it iff lower, and there is none iff equal.  Read off the printer trace: at the moment
    the XY move executes, the printer's Z is max(P.z, target)."""
    conds = []
    for (info, a, b) in log:
        if info in ("G0", "G1"):
            moved_xy = Or(Not(eq(a.x, b.x)), Not(eq(a.y, b.y)))
            conds.append(Implies(moved_xy, eq(a.z, Max(P.z, tracked_z))))
    return And(*conds) if conds else True


@contract(S + "exitExcludedRegion")
def _(c):
    def pre(b):
        st = mk_motion_state(b, lastRetraction="opaque", enter="opaque")
        return {"self": st, "args": {"cmd": b.string("cmd")}, "ghost": {"P": mk_printer(b)}}
    c.pre(pre)
    c.requires("I-type", lambda f: inv_type(f.self))
    c.requires("I-excl", lambda f: inv_excl(f.self))
    c.requires("I-lastpos", lambda f: inv_lastpos(f.self, f.g["P"]))
    c.modifies("self.excluding", "self.pendingCommands.*")

    def structure(f):
        """C06/C15: deferred commands, then the exit script, then G92 E and the G0 moves -- each part once."""
        items = RP.items_of(f.result)
        if not isinstance(f.old.self.excluding, bool) or True:
            pass
        return If(f.old.self.excluding,
                  And(Not(f.self.excluding), pending_empty(f.self), exit_structure(f, items)),
                  And(len(items) == 0, f.unchanged()))
    c.ensures("C06.exit-structure", structure, props=("C06", "C15", "C03"))

    def resync(f):
        P = f.g["P"]
        Q, log = RP.run(P, f.self.position, f.result, None, None)
        E = val(f.self.position.E_AXIS.current)
        return Implies(f.old.self.excluding,
                       And(at_tracked(Q, f.self), eq(Q.e, E), eq(Q.fil, P.fil), Iff(Q.fw, P.fw),
                           z_order_ok(P, Q, log, tracked_xyz(f.self)[2])))
    c.ensures("C03.resync", resync, props=("C03", "C04", "C14", "C15", "C08"),
              cases={"relative-positioning": lambda f: Not(f.self.position.X_AXIS.absoluteMode)})


def exit_structure(f, items):
    """[flush of pending] ++ [exit script] ++ [G92 E] ++ 1..2 G0 moves, in that order."""
    script = f.old.self.exitingExcludedRegionGcode
    i = 0
    if getattr(f, "native", False):
        npend = len(f.old.self.pendingCommands)
        i = npend
        if script is not None:
            if items[i:i + len(script)] != script:
                return False
            i += len(script)
    else:
        # the flush is produced by _processPendingCommands (contract: one splice for the pending map, one for the script)
        if i < len(items) and getattr(items[i], "name", None) == "pending-flush":
            i += 1
        else:
            return False
        if script is not None:
            if i < len(items) and getattr(items[i], "seq", None) is script:
                i += 1
            else:
                return False
    rest = items[i:]
    codes = [first_code(it) for it in rest]
    if len(codes) < 2 or codes[0] != "G92" or any(cd != "G0" for cd in codes[1:]) or len(codes) > 3:
        return False
    return True


@contract(S + "_processPendingCommands")
def _(c):
    """Call-site view (summary): one splice for the deferred commands (in insertion order), the map emptied, then
    the configured exit script.  The function itself is verified against this view under C06."""
    def summary(f):
        from pyvc.values import PyList, Splice
        st = f.self
        out = PyList([])
        out.fresh = True
        pend = st.pendingCommands
        out.items.append(Splice("pending-flush", pend.copy() if hasattr(pend, "copy") else pend))
        f.interp.call_method(pend, "clear", [], {}, None)
        script = st.exitingExcludedRegionGcode
        if script is not None:
            out.items.append(Splice("exit-script", script))
        return out
    c.summary(summary)
    c.use_modular()


# ------------------------------------------------------------------------------------ isAnyPointExcluded
def xy_shape(b, name="xy"):
    """The shapes of *xyPairs: one optional pair (G0/G1), two concrete pairs, or a symbolic even-length sequence
    of numbers (arc samples)."""
    import os
    k = b.choose(2 if os.environ.get("VERIF_NO_SYMBOLIC_XY") else 3, "xyPairs shape")
    if k == 0:
        return (b.optreal(name + ".x"), b.optreal(name + ".y"))
    if k == 1:
        return (b.real(name + ".x0"), b.real(name + ".y0"), b.real(name + ".x1"), b.real(name + ".y1"))
    return b.realseq(name, even=True, min_len=2)


def pair_count(xy):
    if isinstance(xy, (tuple, list)):
        return len(xy) // 2
    return xy.length / 2


def xy_item(xy, i):
    if isinstance(xy, (tuple, list)):
        return xy[i]
    return xy.get(i)


def natives_after(st0, xy, j):
    """Native X/Y after applying pairs 0..j (inclusive) to the axes of state st0.  For sequences longer than one
    pair this is stated for absolute positioning (requires of the contract)."""
    X, Y = st0.position.X_AXIS, st0.position.Y_AXIS
    if isinstance(xy, (tuple, list)) and len(xy) == 2:
        return (RP.opt_target(X, val(X.current), xy[0]), RP.opt_target(Y, val(Y.current), xy[1]))
    return (RP.axis_target(X, val(X.current), xy_item(xy, 2 * j), absolute=True),
            RP.axis_target(Y, val(Y.current), xy_item(xy, 2 * j + 1), absolute=True))


def dest_excluded(st0, xy, regions=None):
    """D: exclusion is enabled and some pair's native point lies in a region (opaque region predicate)."""
    regions = st0.excludedRegions if regions is None else regions
    m = pair_count(xy)
    if isinstance(m, int):
        hits = [R.excluded_op(regions, *natives_after(st0, xy, j)) for j in range(m)]
        return And(st0._exclusionEnabled, Or(*hits))
    return And(st0._exclusionEnabled,
               Exists(0, m, lambda j: R.excluded_op(regions, *natives_after(st0, xy, j))))


def xy_tracked_after(st0, xy):
    m = pair_count(xy)
    return natives_after(st0, xy, m - 1)


@contract(S + "isAnyPointExcluded")
def _(c):
    def pre(b):
        st = mk_state(b, position="some")
        return {"self": st, "args": {"xyPairs": xy_shape(b)}}
    c.pre(pre)
    c.requires("I-type", lambda f: inv_type(f.self))
    c.requires("even-length", lambda f: True if isinstance(f.a.xyPairs, tuple) else
               (len(f.a.xyPairs) % 2 == 0 if isinstance(f.a.xyPairs, list) else eq(f.a.xyPairs.length % 2, 0)))
    c.requires("multi-pair-absolute", lambda f: True if (isinstance(f.a.xyPairs, tuple) and len(f.a.xyPairs) == 2)
               else f.self.position.X_AXIS.absoluteMode)
    c.modifies("self.position.X_AXIS.current", "self.position.Y_AXIS.current")
    # C14 / C03: the tracked X/Y afterwards are the natives of the LAST pair -- whatever the result, and also
    # while exclusion is disabled
    c.ensures("C14.xy-tracked-to-last-pair", lambda f: And(
        eq(val(f.self.position.X_AXIS.current), xy_tracked_after(f.old.self, f.a.xyPairs)[0]),
        eq(val(f.self.position.Y_AXIS.current), xy_tracked_after(f.old.self, f.a.xyPairs)[1])),
        props=("C14", "C01", "C03", "C08"))
    c.ensures("C01.any-point-test", lambda f: Iff(f.result, dest_excluded(f.old.self, f.a.xyPairs)),
              props=("C01", "C14", "C16"))
    c.result("bool")
    c.use_modular()

    def inv(L, k):
        st0 = L.f.old.self
        xy = L.xyPairs
        X, Y = L.xAxis, L.yAxis
        prevx, prevy = natives_after(st0, xy, k - 1)
        return And(
            If(k == 0, And(eq(val(X.current), val(st0.position.X_AXIS.current)), eq(val(Y.current), val(st0.position.Y_AXIS.current))),
               And(eq(val(X.current), prevx), eq(val(Y.current), prevy))),
            Not(is_none(X.current)), Not(is_none(Y.current)),
            Iff(L.exclude, And(st0._exclusionEnabled,
                               Exists(0, k, lambda j: R.excluded_op(st0.excludedRegions, *natives_after(st0, xy, j))))))
    c.loop(0, invariant=inv, havoc={"exclude": "bool"}, havoc_fields=["xAxis.current", "yAxis.current"], scratch=["x", "y"])


# ------------------------------------------------------------------------------------ processLinearMoves
def plm_shape(b):
    k = b.choose(2, "xyPairs shape")
    if k == 0:
        return (b.optreal("x"), b.optreal("y"))
    return b.realseq("xy", even=True, min_len=2)


def last_xy(xy):
    if isinstance(xy, (tuple, list)):
        return xy[-2], xy[-1]
    return xy.get(xy.length - 2), xy.get(xy.length - 1)


def is_move(f):
    xy = f.a.xyPairs
    if isinstance(xy, (tuple, list)):
        return Or(Not(is_none(f.a.finalZ)), *[Not(is_none(v)) for v in xy])
    return True


def plm_orig(f):
    x, y = last_xy(f.a.xyPairs)
    return RP.Orig("move", e=f.a.extruderPosition, x=x, y=y, z=f.a.finalZ)


def plm_D(f):
    return And(is_move(f), dest_excluded(f.old.self, f.a.xyPairs))


def plm_run(f):
    if "run" not in f.__dict__:
        P = f.g["P"]
        f.__dict__["run"] = RP.run(P, f.old.self.position, f.result, f.a.cmd, plm_orig(f))
    return f.__dict__["run"]


def J(st):
    """C02's invariant: no episode open, nothing deferred, no recovery owed."""
    lr = st.lastRetraction
    return And(Not(st.excluding), pending_empty(st), True if lr is None else Or(is_none(lr), Not(lr.recoverExcluded)))


def result_is_only_cmd(f):
    items = RP.items_of(f.result)
    if items is None:
        return True
    return len(items) == 1 and RP.forwarded(f.result, f.a.cmd)


def result_shape_ok(result):
    """C09: 'leave unchanged' (None), 'suppress' (IGNORE_GCODE_CMD) or a non-empty list of command strings."""
    if result is None:
        return True
    if isinstance(result, tuple):
        return len(result) == 1 and result[0] is None
    items = RP.items_of(result)
    return len(items) >= 1 and all(it is not None and not isinstance(it, tuple) for it in items)


from contracts.parserstub import mk_parser   # noqa: E402


@contract(S + "processLinearMoves")
def _(c):
    def pre(b):
        # the state's parser is scratch space (the unchanged code does not touch it here); it is modelled so that a change
        # which builds a command through it is executed rather than given up as "not read"
        st = mk_motion_state(b, parser=mk_parser(b)) if not getattr(b, "native", False) else mk_motion_state(b)
        args = {"cmd": b.string("cmd"), "extruderPosition": b.optreal("e"), "feedRate": b.optreal("f"),
                "finalZ": b.optreal("z"), "xyPairs": plm_shape(b)}
        # ghost of the C05 domain: cycle length L, file retraction depth dF, deepest file depth so far maxF
        return {"self": st, "args": args, "ghost": {"P": mk_printer(b), "L": b.real("cycle.L"), "dF": b.real("file.depth"),
                                                    "maxF": b.real("file.maxdepth")}}
    c.pre(pre)
    c.requires("Inv", lambda f: inv_all(f.self, f.g["P"]))
    c.requires("I-E", lambda f: inv_e(f.self, f.g["P"]))
    c.requires("arc-samples-absolute", lambda f: True if isinstance(f.a.xyPairs, tuple) else f.self.position.X_AXIS.absoluteMode)

    # ---- tracking conformance: the tracked position follows the file
    def tracking(f):
        o, n = f.old.self, f.self
        tx, ty = xy_tracked_after(o, f.a.xyPairs)
        return And(eq(val(n.position.E_AXIS.current), RP.opt_target(o.position.E_AXIS, val(o.position.E_AXIS.current), f.a.extruderPosition)),
                   eq(val(n.position.Z_AXIS.current), RP.opt_target(o.position.Z_AXIS, val(o.position.Z_AXIS.current), f.a.finalZ)),
                   eq(val(n.position.X_AXIS.current), tx), eq(val(n.position.Y_AXIS.current), ty),
                   eq(n.feedRate, If(is_none(f.a.feedRate), o.feedRate, val(f.a.feedRate) * o.feedRateUnitMultiplier)))
    c.ensures("track.position-follows-file", tracking, props=("C01", "C03", "C08", "C14", "C19", "C04"))

    c.ensures("C01.forwarded-move-is-clear", lambda f: Implies(And(RP.forwarded(f.result, f.a.cmd), is_move(f)),
                                                               And(Not(plm_D(f)), Not(f.old.self.excluding))), props=("C01", "C14"))

    def frozen(f):
        Q, log = plm_run(f)
        P = f.g["P"]
        return And(RP.same_xyz(P, Q), Q.fil <= P.fil)
    c.ensures("C01.excluded-move-suppressed", lambda f: Implies(plm_D(f), And(f.self.excluding, frozen(f))), props=("C01",),
              cases={"relative-extrusion": lambda f: Not(f.self.position.E_AXIS.absoluteMode)})
    c.ensures("C01.nothing-moves-inside", lambda f: Implies(And(f.old.self.excluding, f.self.excluding), frozen(f)), props=("C01",),
              cases={"relative-extrusion": lambda f: Not(f.self.position.E_AXIS.absoluteMode)})

    def resync(f):
        Q, log = plm_run(f)
        P = f.g["P"]
        return Implies(And(is_move(f), Not(plm_D(f))),
                       And(Not(f.self.excluding), at_tracked(Q, f.self),
                           Implies(f.old.self.excluding, z_order_ok(P, Q, log, tracked_xyz(f.self)[2]))))
    c.ensures("C03.position-resynchronised", resync, props=("C03", "C08"),
              cases={"relative-positioning": lambda f: And(f.self.excluding, Not(f.self.position.X_AXIS.absoluteMode))})

    c.ensures("C02.transparent", lambda f: Implies(And(J(f.old.self), Not(plm_D(f))),
                                                   And(result_is_only_cmd(f), J(f.self))), props=("C02",))

    def unmatched_recovery(f):
        """Outside the C04/C05 domain (matched cycles): an E-only recovery arriving while a recovery is still owed
        (the file has already recovered, so this is extra extrusion in place, e.g. priming)."""
        o = f.old.self
        lr = o.lastRetraction
        dE = val(f.self.position.E_AXIS.current) - val(o.position.E_AXIS.current)
        owed = False if lr is None else And(Not(is_none(lr)), lr.recoverExcluded)
        return And(Not(is_move(f)), dE > 0, owed)

    def e_sync(f):
        Q, log = plm_run(f)
        return Implies(Not(unmatched_recovery(f)), inv_e(f.self, Q))
    c.ensures("C04.e-register-in-sync-outside", e_sync, props=("C04", "C05"))

    def push_exact(f):
        Q, log = plm_run(f)
        o, n = f.old.self, f.self
        # "extruding move": a command with an X/Y/Z word (E-only retract/recover commands are judged by C05)
        return Implies(And(RP.forwarded(f.result, f.a.cmd), is_move(f), o.position.E_AXIS.absoluteMode),
                       eq(RP.orig_push(log), val(n.position.E_AXIS.current) - val(o.position.E_AXIS.current)))
    c.ensures("C04.forwarded-move-pushes-file-amount", push_exact, props=("C04",))

    c.ensures("C05.retraction-depth-coupling", lambda f: depth_clause(f, is_move, plm_run), props=("C05",))
    c.ensures("Inv-preserved", lambda f: inv_all(f.self, plm_run(f)[0]), props=("C01", "C02", "C03", "C04", "C05", "C14", "C15", "C06", "C08", "C09"),
              cases={"relative-positioning": lambda f: And(f.self.excluding, Not(f.self.position.X_AXIS.absoluteMode)),
                     "relative-extrusion": lambda f: Not(f.self.position.E_AXIS.absoluteMode)})
    c.ensures("C09.result-shape", lambda f: result_shape_ok(f.result), props=("C09",))
    # `for val in xyPairs: if val is not None: isMove = True; break` over arc samples (numbers, never None):
    # the loop is left through `break` in its first iteration, so "no iteration completed yet" is invariant.
    c.loop(0, invariant=lambda L, k: And(k == 0, Not(L.isMove)), havoc={"isMove": "bool"})
    c.split(7)


# ------------------------------------------------------------------------------------ enable / disable (C14)
@contract(S + "enableExclusion")
def _(c):
    c.pre(lambda b: {"self": mk_motion_state(b, position="opaque", lastRetraction="opaque", lastPosition="opaque", enter="opaque",
                                             exit="opaque", pending="opaque"), "args": {"context": b.string("context")}})
    c.modifies("self._exclusionEnabled")
    c.ensures("C14.enabled-afterwards", lambda f: And(f.self._exclusionEnabled, f.result is None), props=("C14",))


@contract(S + "disableExclusion")
def _(c):
    def pre(b):
        st = mk_motion_state(b, lastRetraction="opaque", enter="opaque")
        return {"self": st, "args": {"context": b.string("context")}, "ghost": {"P": mk_printer(b)}}
    c.pre(pre)
    c.requires("I-type", lambda f: inv_type(f.self))
    c.requires("I-excl", lambda f: inv_excl(f.self))
    c.requires("I-lastpos", lambda f: inv_lastpos(f.self, f.g["P"]))
    c.requires("I-pos", lambda f: inv_pos(f.self, f.g["P"]))
    c.modifies("self._exclusionEnabled", "self.excluding", "self.pendingCommands.*")

    def post(f):
        """A disable closes an open episode at once, with the same re-synchronisation obligations as leaving a
        region (C03.resync on the returned commands); otherwise nothing is generated."""
        o, n = f.old.self, f.self
        P = f.g["P"]
        Q, log = RP.run(P, n.position, f.result, None, None)
        closes = And(o._exclusionEnabled, o.excluding)
        return And(Not(n._exclusionEnabled), Not(n.excluding),
                   If(closes, And(at_tracked(Q, n), eq(Q.e, val(n.position.E_AXIS.current)), eq(Q.fil, P.fil),
                                  z_order_ok(P, Q, log, tracked_xyz(n)[2]), exit_structure(f, RP.items_of(f.result))),
                      len(RP.items_of(f.result)) == 0))
    c.ensures("C14.disable-closes-episode", post, props=("C14", "C03", "C06"))
    c.ensures("Inv-preserved", lambda f: And(inv_type(f.self), inv_excl(f.self),
                                             inv_pos(f.self, RP.run(f.g["P"], f.self.position, f.result, None, None)[0])),
              props=("C14", "C01", "C03"))


# ------------------------------------------------------------------------------------ C05: retraction depth (software retractions)
def depth(P):
    return P.hw - P.fil


def depth_inv(st, P, dF, L, maxF):
    """Coupling of physical and file retraction depth on the C05 domain (matched cycles of equal length L):
    no recorded retraction -> both depths 0; recorded and not yet recovered by the file -> both L; recorded and the
    file's recovery was skipped inside a region (owed) -> file 0, printer still L.  The printer is never deeper than
    the deepest depth the file has requested (maxF)."""
    lr = st.lastRetraction
    none = True if lr is None else is_none(lr)
    base = And(P.hw >= P.fil, L > 0, dF >= 0, dF <= maxF, depth(P) <= maxF, depth(P) >= dF)
    if lr is None:
        return And(base, eq(dF, 0), eq(depth(P), 0))
    sw = And(Not(none), Not(lr.firmwareRetract))
    return And(base, Or(none, Not(lr.firmwareRetract)),
               Implies(none, And(eq(dF, 0), eq(depth(P), 0))),
               Implies(sw, And(eq(val(lr.extrusionAmount), L), eq(depth(P), L), maxF >= L,
                               If(lr.recoverExcluded, eq(dF, 0), eq(dF, L)))))


def depth_clause(f, is_move, plm_run):
    o, n = f.old.self, f.self
    P = f.g["P"]
    L, dF, maxF = f.g["L"], f.g["dF"], f.g["maxF"]
    Q, log = plm_run(f)
    dE = val(n.position.E_AXIS.current) - val(o.position.E_AXIS.current)
    mv = is_move(f)
    # the file's side of the domain: E-only commands alternate retract(L) / recover(L); moves extrude only at depth 0
    file_ok = And(o.position.E_AXIS.absoluteMode,
                  If(mv, And(dE >= 0, Implies(dE > 0, eq(dF, 0))),
                     Or(eq(dE, 0), And(eq(dE, -L), eq(dF, 0)), And(eq(dE, L), eq(dF, L)))))
    dF2 = If(mv, dF, dF - dE)
    maxF2 = ops.Max(maxF, dF2)
    # when the forwarded original command extrudes, the physical depth at that moment equals the file's
    at_cmd = True
    for (info, a, b) in log:
        if info == "orig":
            at_cmd = Implies(And(mv, dE > 0), eq(depth(a), dF))
    return Implies(And(file_ok, depth_inv(o, P, dF, L, maxF), inv_e(o, P)),
                   And(depth_inv(n, Q, dF2, L, maxF2), at_cmd))

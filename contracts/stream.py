"""Contracts for StreamProcessor (C20): per-line composition of the handler result, byte-for-byte pass-through of
untouched lines, isolation of the processor's state from the live plugin."""
from pyvc.contracts import contract, REGISTRY
from pyvc import ops
from pyvc.ops import And, Or, Not, Implies, Iff, If, eq, is_none, val, str_eq
from contracts.motion import mk_motion_state, mk_printer, inv_all, inv_e
from contracts.parserstub import mk_parser

SP = "StreamProcessor.StreamProcessor."


def mk_processor(b):
    st = mk_motion_state(b, extended=b.gcode_table())
    h = b.new("GcodeHandlers", state=st, _logger=st._logger, gcodeParser=mk_parser(b))
    comm = b.new("StreamProcessorComm", bufferedCommands=b.list([]))
    k = b.choose(2, "_eol known?")
    eol = None if k == 0 else b.string("prev_eol")
    return b.new("StreamProcessor", gcodeHandlers=h, _logger=st._logger, _eol=eol, commInstance=comm,
                 input_stream=b.opaque("input_stream"))


def delegate_result(f, name, tok):
    """What the delegate returns, as far as process_line can tell: None, IGNORE_GCODE_CMD, or a list of 1..3 commands
    (handleGcode); True/False plus 0..2 commands sent through the comm instance (handleAtCommand)."""
    from pyvc.values import PyList
    ctx = f.interp.ctx
    if name == "handleGcode":
        k = ctx.choose(5, "handler result shape")
        f.g["shape"] = k
        if k == 0:
            return None
        if k == 1:
            return (None,)
        items = [ctx.string("r%d" % i, record=False) for i in range(k - 1)]
        f.g["items"] = items
        lst = PyList(items)
        lst.fresh = True
        return lst
    handled = ctx.branch(ctx.bool("handled", record=False))
    n = ctx.choose(3, "commands sent")
    sent = [ctx.string("s%d" % i, record=False) for i in range(n)]
    for s_ in sent:
        f.interp.call_method(f.a.commInstance, "sendCommand", [s_], {}, None)
    f.g["handled"], f.g["sent"] = handled, sent
    return handled


def joined(eol, items):
    parts = []
    for i, it in enumerate(items):
        if i:
            parts.append(eol)
        parts.append(it)
    parts.append(eol)
    return parts


def concat_eq(result, parts):
    """result == ''.join(parts) for ropes of symbolic strings."""
    if getattr(result, "parts", None) is None and not ops.is_sym(result) and not isinstance(result, str):
        return False
    import z3
    from pyvc.stubs import sstr_to_z3
    zr = sstr_to_z3(result)
    zp = [sstr_to_z3(p) for p in parts]
    if zr is None or any(p is None for p in zp):
        return False
    return zr == (z3.Concat(*zp) if len(zp) > 1 else zp[0])


@contract(SP + "process_line")
def _(c):
    def pre(b):
        p = mk_processor(b)
        return {"self": p, "args": {"line": b.string("line")},
                "ghost": {"P": mk_printer(b), "delegate_result": delegate_result}}
    c.pre(pre)
    c.requires("Inv", lambda f: And(inv_all(f.self.gcodeHandlers.state, f.g["P"]), inv_e(f.self.gcodeHandlers.state, f.g["P"])))
    c.requires("deferred-table-domain", lambda f: stream_domain(f))

    def post(f):
        from contracts.parserstub import line_fns
        from pyvc.stubs import sstr_to_z3
        import z3
        F = line_fns()
        line = f.a.line
        z = sstr_to_z3(line)
        log = f.g.get("delegated", [])
        type_none = F["type_none"](z)
        is_at = z3.PrefixOf(z3.StringVal("@"), F["text"](z))
        eol_line = F["eol"](z)
        prev = f.old.self._eol
        eol = z3.If(z3.Length(eol_line) > 0, eol_line, prev if prev is not None else z3.StringVal("\n"))
        if not log:
            # neither a G-code nor an @-command line: reproduced byte for byte, nothing touched but the remembered eol
            return And(type_none, Not(is_at), f.result is line)
        name, a, _ = log[0]
        if len(log) != 1:
            return False
        if name == "handleGcode":
            args_ok = And(Not(type_none), str_eq(a["cmd"], F["norm"](z)), str_eq(val(a["gcode"]), F["gcode"](z)),
                          Not(is_none(a["gcode"])))
            k = f.g["shape"]
            if k == 0:
                return And(args_ok, f.result is line)
            if k == 1:
                return And(args_ok, f.result is None)
            return And(args_ok, concat_eq(f.result, joined(eol, f.g["items"])))
        if name == "handleAtCommand":
            args_ok = And(type_none, is_at)
            handled, sent = f.g["handled"], f.g["sent"]
            if not handled:
                return And(args_ok, f.result is line)
            if not sent:
                return And(args_ok, f.result is None)
            return And(args_ok, concat_eq(f.result, joined(eol, sent)))
        return False
    c.ensures("C20.line-composition", post, props=("C20",))


def stream_domain(f):
    """The deferred-table invariant/domain for the command this line normalises to (see contracts/deferred.py)."""
    from contracts.parserstub import line_fns
    from contracts.handlers import deferred_domain_of
    from pyvc.stubs import sstr_to_z3
    z = sstr_to_z3(f.a.line)
    F = line_fns()
    return deferred_domain_of(f.self.gcodeHandlers.state, F["norm"](z), F["gcode"](z))


@contract(SP + "__init__")
def _(c):
    def pre(b):
        st = mk_motion_state(b, extended=b.gcode_table())
        live = b.new("GcodeHandlers", state=st, _logger=st._logger, gcodeParser=mk_parser(b))
        import io
        stream = io.BytesIO(b"") if getattr(b, "native", False) else b.opaque("inputStream")
        return {"self": b.new("StreamProcessor"), "args": {"inputStream": stream, "gcodeHandlers": live}}
    c.pre(pre)

    def isolated(f):
        """The processor works on a deep copy: no mutable object of its state is shared with the live handlers, the copy
        is structurally equal, and the live state is not written."""
        mine = f.self.gcodeHandlers
        live = f.a.gcodeHandlers
        if getattr(f, "native", False):
            from pyvc.native import describe
            shared = reachable_mutable(mine.state) & reachable_mutable(live.state)
            return (mine is not live and mine.state is not live.state and len(shared) == 0
                    and describe(mine.state) == describe(live.state) and mine.gcodeParser is not live.gcodeParser
                    and describe(live) == describe(f.old.a.gcodeHandlers))
        from pyvc.heap import struct_eq
        shared = reachable_mutable(mine.state) & reachable_mutable(live.state)
        return And(mine is not live, mine.state is not live.state, len(shared) == 0,
                   struct_eq(mine.state, live.state), mine.gcodeParser is not live.gcodeParser, f.unchanged_except_self())
    c.ensures("C20.state-is-a-disjoint-copy", isolated, props=("C20",))


def _native_reachable_mutable(root):
    """Native replay: ids of the mutable objects (instances, lists, dicts, sets) reachable from a real object.  Loggers and
    mocks (shared by design: copy.deepcopy returns the same logger), classes, modules, functions and compiled patterns do
    not count."""
    import types
    import re as _re
    seen, out, stack = set(), set(), [root]
    skip_mods = ("logging", "unittest.mock", "mock")
    while stack:
        v = stack.pop()
        if id(v) in seen or v is None or isinstance(v, (str, bytes, int, float, bool, complex, frozenset, type, types.ModuleType,
                                                        types.FunctionType, types.MethodType, types.BuiltinFunctionType, _re.Pattern)):
            continue
        seen.add(id(v))
        if (type(v).__module__ or "").split(".")[0] in ("logging", "mock") or (type(v).__module__ or "") in skip_mods:
            continue
        if isinstance(v, dict):
            out.add(id(v))
            stack.extend(v.values())
        elif isinstance(v, (list, set)):
            out.add(id(v))
            stack.extend(v)
        elif isinstance(v, tuple):
            stack.extend(v)
        elif hasattr(v, "__dict__"):
            out.add(id(v))
            stack.extend(vars(v).values())
    return out


def reachable_mutable(root):
    try:
        from pyvc.values import Obj, PyList, PyDict, OptObj, Model
    except ImportError:         # native replay runs without z3
        return _native_reachable_mutable(root)
    if not isinstance(root, (Obj, PyList, PyDict, OptObj, Model)):
        return _native_reachable_mutable(root)
    seen, out, stack = set(), set(), [root]
    while stack:
        v = stack.pop()
        if id(v) in seen:
            continue
        seen.add(id(v))
        if isinstance(v, Obj):
            out.add(id(v))
            stack.extend(v.fields.values())
        elif isinstance(v, OptObj):
            stack.append(v.obj)
        elif isinstance(v, (PyList,)):
            out.add(id(v))
            stack.extend(v.items)
        elif isinstance(v, PyDict):
            out.add(id(v))
            stack.extend(v.d.values())
        elif isinstance(v, Model) and type(v).__name__ in ("RegionList", "OrdMap"):
            out.add(id(v))
    return out

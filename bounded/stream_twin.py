"""C20 bounded stand-in: filtering a file through StreamProcessor.process_line vs. feeding the same lines to a twin
GcodeHandlers (deep copy of the same live state) the way the live queuing hooks would (normalised command, gcode,
subcode) -- on generated files (all sequences of <= 3 (quick) / <= 4 (thorough) template lines x line endings, from
several live states), plus the isolation of the live state."""
import copy
import io
import itertools
import logging
import sys

from common import setup, emit

tier, seed, repo = sys.argv[1], int(sys.argv[2]), sys.argv[3]
setup(repo)
from octoprint_excluderegion.GcodeHandlers import GcodeHandlers  # noqa: E402
from octoprint_excluderegion.ExcludeRegionState import ExcludeRegionState  # noqa: E402
from octoprint_excluderegion.StreamProcessor import StreamProcessor, StreamProcessorComm  # noqa: E402
from octoprint_excluderegion.RectangularRegion import RectangularRegion  # noqa: E402
from octoprint_excluderegion.GcodeParser import GcodeParser  # noqa: E402
from octoprint_excluderegion.AtCommandAction import AtCommandAction  # noqa: E402
from octoprint_excluderegion.ExcludedGcode import ExcludedGcode  # noqa: E402
from pyvc.native import describe  # noqa: E402

LOG = logging.getLogger("verif.bounded")
LOG.addHandler(logging.NullHandler())
LOG.propagate = False

LINES = ["G28 ; home", "G1 X10 Y10 F3000", "G1 X50 Y50 E1", "  G1 X60 Y60 Z2 ; out", "G1 E-1 F1800", "G1 E1", "; just a comment", "",
         "   ", "M117 hello", "N5 G1 X55 Y55*20", "@ExcludeRegion disable", "@ExcludeRegion enable", "@other thing", "G10", "G11",
         "M204 S500", "G92 E0", "G91", "G90", "g1 x51 y51", "T0", "  G10 S1", "G1 X20 Y10 E2"]
EOLS = ["\n", "\r\n"]
MAXL = 3 if tier == "quick" else 4


def live_states():
    out = []
    for mode in range(3):
        st = ExcludeRegionState(LOG)
        st.addRegion(RectangularRegion(x1=40, y1=40, x2=58, y2=58, id="r"))
        st.atCommandActions = {"ExcludeRegion": [AtCommandAction("ExcludeRegion", "^\\s*(enable|on)(\\s|$)", "enable_exclusion", ""),
                                                 AtCommandAction("ExcludeRegion", "^\\s*(disable|off)(\\s|$)", "disable_exclusion", "")]}
        st.extendedExcludeGcodes = {"M204": ExcludedGcode("M204", "merge", ""), "M117": ExcludedGcode("M117", "last", "")}
        if mode >= 1:
            st.enteringExcludedRegionGcode = ["M117 enter"]
            st.exitingExcludedRegionGcode = ["M117 exit"]
        h = GcodeHandlers(st, LOG)
        for c in ("G28", "G1 X0 Y0 Z0.2 F3000") + (("G1 X50 Y50",) if mode == 2 else ()):
            p = GcodeParser().parse(c)
            h.handleGcode(c, p.gcode, p.subCode)
        out.append(h)
    return out


class _LiveComm(object):
    def __init__(self):
        self.sent = []

    def isStreaming(self):
        return False

    def sendCommand(self, command, **kwargs):
        self.sent.append(command)


def live_hooks(handlers, line):
    """What the live queuing hooks would send for this line (OctoPrint hands them the command with comment, line ending
    and surrounding blanks removed; lines that are neither G-code nor @-commands are sent as they are)."""
    p = GcodeParser().parse(line)
    if p.type is not None:
        cmd = p.stringify(includeLeadingWhitespace=False, includeLineNumber=False, includeComment=False, includeEol=False)
        r = handlers.handleGcode(cmd, p.gcode, p.subCode)
        if r is None:
            return "unchanged"
        if not isinstance(r, list):
            r = [r]
        return [str(x[0] if isinstance(x, tuple) else x) for x in r if (x[0] if isinstance(x, tuple) else x) is not None]
    if p.text.startswith("@"):
        pieces = p.text.split(None, 1)
        comm = _LiveComm()      # an independent stand-in for OctoPrint's comm object (printing from the host: not streaming)
        if handlers.handleAtCommand(comm, pieces[0][1:], "" if len(pieces) < 2 else pieces[1]):
            return list(comm.sent)
        return "unchanged"
    return "unchanged"


violations, cases, distinct = [], 0, set()
for live in live_states():
    for k in range(1, MAXL + 1):
        pool = LINES if k < 3 else (LINES[:14] + LINES[-2:]) if k == 3 else LINES[:9]
        for lines in itertools.product(pool, repeat=k):
            for eol in EOLS:
                for last_eol in (eol, ""):
                    cases += 1
                    text = [l + eol for l in lines[:-1]] + [lines[-1] + last_eol]
                    before = describe(live.state)
                    sp = StreamProcessor(io.BytesIO(b""), live)
                    twin = GcodeHandlers(copy.deepcopy(live.state), LOG)
                    cur_eol = None
                    for ln in text:
                        out = sp.process_line(ln)
                        exp = live_hooks(twin, ln)
                        pe = GcodeParser().parse(ln).eol
                        if pe:
                            cur_eol = pe
                        use = cur_eol or "\n"
                        if exp == "unchanged":
                            want = ln
                        elif not exp:
                            want = None
                        else:
                            want = use.join(exp) + use
                        if out != want:
                            violations.append({"clause": "C20.line-for-line", "input": "".join(text), "detail": "line %r -> %r, live hooks give %r" % (ln, out, want)})
                            break
                    if describe(live.state) != before:
                        violations.append({"clause": "C20.isolation", "input": "".join(text), "detail": "live state changed"})
                    distinct.add("".join(text))
emit({"name": "bounded/stream-twin", "bounded": True,
      "bound": "files of <= %d lines from %d templates x {LF, CRLF} x last line with/without terminator, from 3 live states" % (MAXL, len(LINES)),
      "cases": cases, "distinct_nontrivial": len(distinct), "exhaustive": False,
      "rule": "a case is one file text from one live state; distinct by text",
      "samples": ["G28 ; home\nG1 X50 Y50 E1\n", "@ExcludeRegion disable\r\nG1 X50 Y50"], "violations": violations[:20], "n_violations": len(violations)})

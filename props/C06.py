from props.common import *
from props.boundedrun import script
ID = "C06"
LEVEL = "proof"
TAGS = ("C06",)
CONTRACT_MODULES = ALL_CONTRACTS
FUNCTIONS = [S + "_processExtendedGcodeEntry", S + "processExtendedGcode", S + "_processPendingCommands", S + "exitExcludedRegion",
             S + "enterExcludedRegion", S + "disableExclusion", P + "handleScriptHook", S + "resetState", H + "handleGcode", "GcodeParser.GcodeParser.buildCommand", "__init__.ExcludeRegionPlugin._handleSettingsUpdated"] + [P + "on_event"]
ASSUMPTIONS = ["A1", "A2", "A3", "A4", "INDUCTION"]
BOUNDED = [script("split_script.py"), script("merge_roundtrip.py")]
EXTRA_ASSUMPTIONS = ["collections.OrderedDict is modelled as an insertion-ordered map with pairwise distinct keys (abstract array view of arbitrary symbolic size)",
                     "the configuration is stable during an episode (an entry stored for a merge-mode code is an argument map); in the deductive part merge-mode commands are seen through the abstract item sequence (letters with optional values); the parser's extra free-text item '' is covered end to end by the bounded merge round-trip (coverage.bounded: bounded/merge-roundtrip)",
                     "callers see GcodeParser.buildCommand as an opaque rendering of (code, argument map); the real buildCommand (constructor, gcode setter, parameterDict setter, stringify) is executed for argument maps of 0..3 parameters with symbolic values and read back with the independent RS274 reader (bounded in the number of parameters only)",
                     "_handleSettingsUpdated is verified for 0..2 configured extended codes and 0..2 configured @-command actions with symbolic modes/actions/descriptions (bounded in these counts only); _splitGcodeScript is an opaque function of the configured text there and is checked bounded (coverage.bounded: bounded/split-script)",
                     "'new print': nothing deferred survives a reset (resetState installs an empty table; no exit script is owed for an episode aborted by a reset)"]
EXPLANATION = ("Whole-table post-conditions over an ordered map of arbitrary symbolic size: exclude leaves the table unchanged; first "
               "appends (code, command) iff the code is absent; last removes the code's entry and appends the new command; merge removes "
               "it and appends the old argument map overwritten left to right by the command's words (loop invariant with the recursive "
               "spec function last_idx); all return IGNORE. _processPendingCommands returns one command per entry in insertion order "
               "followed by the exit script and empties the table (loop invariant over a growing list); exitExcludedRegion / "
               "disableExclusion / handleScriptHook place that before G92 E and the moves; enterExcludedRegion returns the enter script "
               "iff an episode actually begins; processExtendedGcode withholds only configured codes inside an episode. A merged command "
               "(buildCommand) reads back as exactly its arguments, a value of 0 included. The lists handed out by enterExcludedRegion / "
               "_processPendingCommands never alias the configured scripts. _handleSettingsUpdated takes the scripts from their own "
               "settings keys and mirrors the configured deferral and @-command tables (last entry wins for a repeated code).")
BREAKERS = [
    {"module": "GcodeParser", "old": "                if (val is not None):\n                    key += formatNumber(val)", "new": "                if (val):\n                    key += formatNumber(val)",
     "desc": "merged command drops a value of 0", "functions": ["GcodeParser.GcodeParser.buildCommand"]},
    {"module": "ExcludeRegionState", "old": "            self.pendingCommands.pop(gcode, None)\n            self.pendingCommands[gcode] = cmd",
     "new": "            self.pendingCommands[gcode] = cmd", "desc": "'last' mode keeps the position of the first occurrence",
     "functions": [S + "_processExtendedGcodeEntry"]},
    {"module": "ExcludeRegionState", "old": "            self.pendingCommands.clear()\n", "new": "            pass\n",
     "desc": "flushed commands stay in the table (leak into the next episode)", "functions": [S + "_processPendingCommands"]},
    {"module": "ExcludeRegionState", "old": "            if (not (gcode in self.pendingCommands)):\n                self.pendingCommands[gcode] = cmd",
     "new": "            self.pendingCommands[gcode] = cmd", "desc": "'first' mode keeps the last instance", "functions": [S + "_processExtendedGcodeEntry"]},
    {"module": "ExcludeRegionState", "old": "                if (label):\n                    pendingArgs[label] = value", "new": "                if (label and label not in ('S',)):\n                    pendingArgs[label] = value",
     "desc": "merge drops S words", "functions": [S + "_processExtendedGcodeEntry"]},
    {"module": "ExcludeRegionState", "old": "        if (gcode and self.excluding):\n            entry = self.extendedExcludeGcodes.get(gcode)",
     "new": "        if (gcode):\n            entry = self.extendedExcludeGcodes.get(gcode)", "desc": "configured codes withheld outside episodes too",
     "functions": [S + "processExtendedGcode"]},
    {"module": "ExcludeRegionState", "old": "        returnCommands = []\n        if (self.enteringExcludedRegionGcode is not None):\n            returnCommands.extend(self.enteringExcludedRegionGcode)",
     "new": "        returnCommands = []\n        if (self.enteringExcludedRegionGcode is not None):\n            returnCommands.extend(self.enteringExcludedRegionGcode)\n            returnCommands.extend(self.enteringExcludedRegionGcode)",
     "desc": "enter script emitted twice", "functions": [S + "enterExcludedRegion"]},
]

"""Regular expressions: the contract of the C regex engine is derived mechanically from the pattern text in the real
source (re._parser.parse).  This module translates the parse tree to a z3 regular expression (used for the totality
lemma); DESIGN.md 2.6.  Assumption: the digit class is ASCII 0-9 (A2)."""
import re._parser as sp
import re._constants as sc

import z3


def char(c):
    return z3.Re(z3.StringVal(chr(c)))


def klass(items):
    neg = False
    parts = []
    for op, av in items:
        if op == sc.NEGATE:
            neg = True
        elif op == sc.LITERAL:
            parts.append(char(av))
        elif op == sc.RANGE:
            parts.append(z3.Range(chr(av[0]), chr(av[1])))
        elif op == sc.CATEGORY:
            if av == sc.CATEGORY_DIGIT:
                parts.append(z3.Range("0", "9"))
            elif av == sc.CATEGORY_SPACE:
                parts.append(z3.Union(*[char(ord(x)) for x in " \t\n\r\f\v"]))
            else:
                raise NotImplementedError("category %r" % (av,))
        else:
            raise NotImplementedError("class item %r" % (op,))
    u = parts[0] if len(parts) == 1 else z3.Union(*parts)
    if neg:
        any1 = z3.AllChar(z3.ReSort(z3.StringSort()))
        return z3.Intersect(any1, z3.Complement(u))
    return u


EPS = None


def eps():
    return z3.Re(z3.StringVal(""))


def translate(tree, stop_at_end_anchor=True):
    """sre parse tree -> z3 regex.  AT_END_STRING is translated to epsilon and reported through `anchors`."""
    parts = []
    for op, av in tree:
        if op == sc.LITERAL:
            parts.append(char(av))
        elif op == sc.IN:
            parts.append(klass(av))
        elif op == sc.ANY:
            parts.append(z3.AllChar(z3.ReSort(z3.StringSort())))
        elif op == sc.SUBPATTERN:
            parts.append(translate(av[3]))
        elif op in (sc.MAX_REPEAT, sc.MIN_REPEAT):
            lo, hi, sub = av
            r = translate(sub)
            if hi == sc.MAXREPEAT:
                parts.append(z3.Star(r) if lo == 0 else (z3.Plus(r) if lo == 1 else z3.Concat(z3.Loop(r, lo, lo), z3.Star(r))))
            elif (lo, hi) == (0, 1):
                parts.append(z3.Option(r))
            else:
                parts.append(z3.Loop(r, lo, hi))
        elif op == sc.BRANCH:
            alts = [translate(b) for b in av[1]]
            parts.append(z3.Union(*alts) if len(alts) > 1 else alts[0])
        elif op == sc.AT:
            if av in (sc.AT_END_STRING, sc.AT_BEGINNING_STRING, sc.AT_BEGINNING):
                parts.append(eps())
            else:
                raise NotImplementedError("anchor %r" % (av,))
        else:
            raise NotImplementedError("regex op %r" % (op,))
    if not parts:
        return eps()
    return parts[0] if len(parts) == 1 else z3.Concat(*parts)


def line_pattern_lemmas(pattern_text, timeout_ms=60000):
    """Totality and progress of the G-code line pattern, from the pattern text.
    The pattern must have the shape  BODY (EOL1|EOL2|...|\\Z)  (checked)."""
    import time
    tree = sp.parse(pattern_text)
    items = list(tree)
    last = items[-1]
    assert last[0] == sc.SUBPATTERN, "pattern must end with the EOL group"
    br = list(last[1][3])
    assert len(br) == 1 and br[0][0] == sc.BRANCH, "EOL group must be an alternation"
    alts = br[0][1][1]
    eol_alts, has_end = [], False
    for a in alts:
        a = list(a)
        if len(a) == 1 and a[0][0] == sc.AT and a[0][1] == sc.AT_END_STRING:
            has_end = True
        else:
            eol_alts.append(translate(a))
    body = translate(items[:-1])
    full = z3.Full(z3.ReSort(z3.StringSort()))
    t = z3.String("rest")
    out = []
    # totality: every remaining text starts with a match (BODY EOL ...) or is itself BODY (\Z alternative)
    lang = z3.Concat(body, z3.Union(*eol_alts) if len(eol_alts) > 1 else eol_alts[0], full)
    if has_end:
        lang = z3.Union(lang, body)
    s = z3.Solver()
    s.set("timeout", timeout_ms)
    s.add(z3.Not(z3.InRe(t, lang)))
    t0 = time.time()
    r = s.check()
    out.append({"name": "GcodeParser.REGEX_GCODE_LINE/C18.pattern-matches-at-every-offset", "kind": "lemma",
                "status": "discharged" if r == z3.unsat else ("refuted" if r == z3.sat else "unknown"), "backend": "z3-seq",
                "secs": round(time.time() - t0, 3), "props": ["C18"],
                "model": {"rest": s.model()[t].as_string()} if r == z3.sat else None})
    # non-vacuity: without the catch-all alternative the same query must be satisfiable (checked on a copy of the
    # tree with the second alternative of group 2 removed is pattern specific; instead: the language is not trivially full)
    s2 = z3.Solver()
    s2.set("timeout", timeout_ms)
    s2.add(z3.InRe(t, z3.Concat(body, z3.Union(*eol_alts))), z3.Length(t) > 3)
    out.append({"name": "GcodeParser.REGEX_GCODE_LINE/C18.pattern-cover", "kind": "cover", "status": "discharged" if s2.check() == z3.sat else "unknown",
                "backend": "z3-seq", "secs": 0.0, "props": ["C18"]})
    # progress: the empty string is matched only through the \Z alternative (every other EOL alternative is non-empty)
    e = z3.String("eol")
    s3 = z3.Solver()
    s3.set("timeout", timeout_ms)
    s3.add(z3.InRe(e, z3.Union(*eol_alts)), z3.Length(e) == 0)
    t0 = time.time()
    r3 = s3.check()
    out.append({"name": "GcodeParser.REGEX_GCODE_LINE/C18.progress-empty-match-only-at-end", "kind": "lemma",
                "status": "discharged" if r3 == z3.unsat else ("refuted" if r3 == z3.sat else "unknown"), "backend": "z3-seq",
                "secs": round(time.time() - t0, 3), "props": ["C18"]})
    return out

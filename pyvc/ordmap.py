"""Insertion-ordered map model (collections.OrderedDict) -- see DESIGN.md 3.3.

Abstract view: n entries; key(i), value(i) for 0 <= i < n in insertion order; keys pairwise distinct.
Values are opaque items (strings or argument maps)."""
import z3

from . import ops
from .values import Model, Unsupported, SymSeq, next_oid


class ArgMap(Model):
    clsname = "dict"


class OrdMap(Model):
    clsname = "OrderedDict"

    def __init__(self, n, keys=None, tag="om"):
        self.n = n
        self.keys = keys
        self.tag = tag
        self.oid = next_oid()
        self.fresh = False

    @classmethod
    def empty(cls, ctx):
        m = cls(z3.IntVal(0))
        m.fresh = True
        return m

    @classmethod
    def symbolic(cls, ctx, name="pending"):
        n = ctx.int(name + ".len")
        ctx.assume(n >= 0, definitional=True)
        return cls(n, tag=name)

    def is_empty(self):
        return self.n == 0

    def call_method(self, interp, name, args, kwargs, node):
        if name == "__bool__":
            return self.n > 0
        if name == "__len__":
            return self.n
        if name == "clear":
            interp.ctx.log_write(self, "*")
            self.n = z3.IntVal(0)
            return None
        raise Unsupported("OrderedDict.%s" % name, node)

    def copy(self, memo=None):
        c = OrdMap(self.n, self.keys, self.tag)
        c.fresh = True
        return c

    def struct_eq(self, other):
        if self.keys is None and other.keys is None:
            # contents are not modelled at this level: only emptiness can be compared
            return z3.And(self.n == 0, other.n == 0) if not (self is other) else True
        raise Unsupported("OrderedDict comparison")

    def read(self, key):
        return self

    def children(self):
        return []

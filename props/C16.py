from props.common import *
ID = "C16"
LEVEL = "proof"
TAGS = ("C16",)
CONTRACT_MODULES = ALL_CONTRACTS
FUNCTIONS = [H + "planArc", H + "computeArcCenterOffsets", H + "_handle_G2", H + "_handle_G3", S + "isAnyPointExcluded"]
ASSUMPTIONS = ["A1", "A2", "A4"]
EXPLANATION = ("planArc: for symbolic start, centre offset, end point and direction, and an arbitrary iteration k of the sampling loop: "
               "the appended sample lies on the circle through the start point around the centre, consecutive samples (and the start "
               "point) are at most one unit apart (lemma chain: squared distance = r^2(2-2cos inc) <= (r inc)^2 <= 1), the angle advances "
               "by the constant increment inc with inc*n = sweep, n >= 1, the sweep is in [-2pi,0) for G2 and [0,2pi] for G3, and the list "
               "ends exactly at the commanded end point. computeArcCenterOffsets: centre at distance |R| from both end points (known "
               "finding F9 for oblique chords), on the side of the chord that makes the commanded direction the short way round iff "
               "R > 0 (enforced for vertical chords; for every other chord the same F9 defect puts it on the wrong side: known finding). _handle_G2/_G3 hand exactly planArc's points to processLinearMoves, whose any-point test "
               "(isAnyPointExcluded, loop invariant over the pairs) excludes the arc if any sample is excluded. cos/sin/atan2 are "
               "uninterpreted with the identities listed under A2, instantiated only at the terms that occur.")
EXTRA_ASSUMPTIONS = ["the spacing clause between the LAST computed sample and the commanded end point is not claimed (it needs the end point to lie on the circle, which G-code does not guarantee)"]
BREAKERS = [{'desc': 'I and J swapped when planning',
  'functions': ['GcodeHandlers.GcodeHandlers._handle_G2'],
  'module': 'GcodeHandlers',
  'new': '            xyPairs = self.planArc(x, y, j, i, clockwise)',
  'old': '            xyPairs = self.planArc(x, y, i, j, clockwise)'},
 {'desc': 'direction inverted',
  'functions': ['GcodeHandlers.GcodeHandlers.planArc'],
  'module': 'GcodeHandlers',
  'new': '        if (not clockwise):\n            angularTravel -= TWO_PI',
  'old': '        if (clockwise):\n            angularTravel -= TWO_PI'},
 {'desc': 'segments three units long',
  'functions': ['GcodeHandlers.GcodeHandlers.planArc'],
  'module': 'GcodeHandlers',
  'new': 'MM_PER_ARC_SEGMENT = 3\n',
  'old': 'MM_PER_ARC_SEGMENT = 1\n'},
 {'desc': 'zero segments for a degenerate arc (original F8)',
  'functions': ['GcodeHandlers.GcodeHandlers.planArc'],
  'module': 'GcodeHandlers',
  'new': '        numSegments = int(math.ceil(arcLength / MM_PER_ARC_SEGMENT))',
  'old': '        numSegments = max(1, int(math.ceil(arcLength / MM_PER_ARC_SEGMENT)))'},
 {'desc': 'y sample uses cos',
  'functions': ['GcodeHandlers.GcodeHandlers.planArc'],
  'module': 'GcodeHandlers',
  'new': '            rval += [centerX + math.cos(angle) * radius, centerY + math.cos(angle) * radius]',
  'old': '            rval += [centerX + math.cos(angle) * radius, centerY + math.sin(angle) * radius]'}]

"""Contracts for GcodeHandlers: the G-code handlers read the command with the RS274 'last value per letter'
rule (C19b) and delegate to the state machine; frame-setting handlers follow the reference printer (C08)."""
from pyvc.contracts import contract, REGISTRY
from pyvc import ops
from pyvc.ops import And, Or, Not, Implies, Iff, If, eq, is_none, val, ForAll, Exists, str_eq
from spec import axis as A
from spec import refprinter as RP
from spec import rs274
from contracts.motion import (inv_e, mk_motion_state, mk_printer, inv_all, inv_type, retraction_ok, S, pending_empty, J,
                              result_shape_ok, at_tracked, inv_pos, inv_excl, inv_lastpos)
from contracts.parserstub import mk_parser

H = "GcodeHandlers.GcodeHandlers."


def mk_handlers(b, st):
    return b.new("GcodeHandlers", state=st, _logger=st._logger, gcodeParser=mk_parser(b))


def last_word(cmd, letter, k=None):
    """RS274 reading: the value of the last word with that letter that carries a number (optional)."""
    if isinstance(cmd, str):
        code, params = rs274.command_of(rs274.words(cmd))
        v = rs274.last(params, letter)
        return None if v is None else float(v)
    from pyvc import gitems
    return gitems.last_opt(cmd, letter, k)


def has_word(cmd, letter, k=None):
    if isinstance(cmd, str):
        code, params = rs274.command_of(rs274.words(cmd))
        return any(l == letter for (l, _) in params)
    from pyvc import gitems
    return gitems.has_letter(cmd, letter, k)


def opt_eq(a, b):
    """Equality of optional numbers."""
    return Or(And(is_none(a), is_none(b)), And(Not(is_none(a)), Not(is_none(b)), eq(val(a), val(b))))


def state_summary(name):
    """Call-site view of a state-machine entry point for the handler layer: the call is logged (ghost), the
    state is considered changed arbitrarily, the result is an opaque token.  The entry point's own contract
    (contracts/motion.py) says what the call does."""
    def summary(f):
        log = f.g.setdefault("delegated", [])
        tok = ("<result of %s #%d>" % (name, len(log)),)
        log.append((name, dict((k, v) for k, v in f.args.items() if k != "self"), tok))
        st = f.self
        from pyvc.values import Opaque
        for k in list(st.fields):
            if k != "_logger":
                f.interp.ctx.log_write(st, k)
                st.fields[k] = Opaque("state.%s after %s" % (k, name))
        return tok
    return summary


REGISTRY.get(S + "processLinearMoves").summary(state_summary("processLinearMoves")).use_modular()


def calls(f, name=None):
    log = f.g.get("delegated", [])
    return [c for c in log if name is None or c[0] == name]


def only_state_written(f):
    """Writes are confined to the state object handed to the delegate and the handlers' own parser."""
    if getattr(f, "native", False):
        return True
    st, parser = f.self.state, f.self.gcodeParser
    return all(cont is st or cont is parser for (cont, key) in f.writes)


# ------------------------------------------------------------------------------------------ G0 / G1
@contract(H + "_handle_G0")
def _(c):
    def pre(b):
        st = mk_motion_state(b)
        h = mk_handlers(b, st)
        g = {"P": mk_printer(b)}
        b.spy(g, st, "processLinearMoves")
        return {"self": h, "args": {"cmd": b.gcode_command("cmd", code="G1"), "gcode": "G1", "subcode": None}, "ghost": g}
    c.pre(pre)
    c.requires("Inv", lambda f: inv_all(f.self.state, f.g["P"]))
    c.requires("I-E", lambda f: inv_e(f.self.state, f.g["P"]))

    def inv(L, k):
        src = L.cmd
        return And(opt_eq(L.extruderPosition, last_word(src, "E", k)), opt_eq(L.feedRate, last_word(src, "F", k)),
                   opt_eq(L.x, last_word(src, "X", k)), opt_eq(L.y, last_word(src, "Y", k)), opt_eq(L.z, last_word(src, "Z", k)))
    c.loop(0, invariant=inv, havoc={"extruderPosition": "optreal", "feedRate": "optreal", "x": "optreal", "y": "optreal", "z": "optreal"})

    def delegates(f):
        cs = calls(f)
        if len(cs) != 1 or cs[0][0] != "processLinearMoves":
            return False
        a, tok = cs[0][1], cs[0][2]
        cmd = f.a.cmd
        xy = a["xyPairs"]
        same_cmd = (a["cmd"] is cmd) or str_eq(a["cmd"], cmd)
        return And(same_cmd, len(xy) == 2,
                   opt_eq(a["extruderPosition"], last_word(cmd, "E")), opt_eq(a["feedRate"], last_word(cmd, "F")),
                   opt_eq(a["finalZ"], last_word(cmd, "Z")), opt_eq(xy[0], last_word(cmd, "X")) if len(xy) == 2 else False,
                   opt_eq(xy[1], last_word(cmd, "Y")) if len(xy) == 2 else False,
                   f.result is tok or getattr(f, "native", False))
    c.ensures("C19.linear-move-acts-on-last-values", delegates, props=("C19", "C01", "C02", "C03", "C04", "C08", "C09", "C14"))
    c.ensures("handler-frame", only_state_written, props=("C19", "C01", "C02"))


@contract(H + "_handle_G1")
def _(c):
    def pre(b):
        st = mk_motion_state(b)
        h = mk_handlers(b, st)
        g = {"P": mk_printer(b)}
        b.spy(g, h, "_handle_G0")
        return {"self": h, "args": {"cmd": b.gcode_command("cmd", code="G1"), "gcode": "G1", "subcode": None}, "ghost": g}
    c.pre(pre)
    c.requires("Inv", lambda f: inv_all(f.self.state, f.g["P"]))
    c.requires("I-E", lambda f: inv_e(f.self.state, f.g["P"]))

    def same_as_g0(f):
        cs = calls(f)
        return len(cs) == 1 and cs[0][0] == "_handle_G0" and (cs[0][1]["cmd"] is f.a.cmd) and f.result is cs[0][2]
    c.ensures("G1-is-G0", same_as_g0, props=("C19", "C01", "C02", "C03", "C04", "C09"))


def handler_summary(name):
    def summary(f):
        log = f.g.setdefault("delegated", [])
        tok = ("<result of %s #%d>" % (name, len(log)),)
        log.append((name, dict((k, v) for k, v in f.args.items() if k != "self"), tok))
        st = f.self.state
        from pyvc.values import Opaque
        for k in list(st.fields):
            if k != "_logger":
                f.interp.ctx.log_write(st, k)
                st.fields[k] = Opaque("state.%s after %s" % (k, name))
        return tok
    return summary


REGISTRY.get(H + "_handle_G0").summary(handler_summary("_handle_G0")).use_modular()


# ------------------------------------------------------------------------------------------ arcs (call-site views)
def fresh_pairs(f):
    """Result of planArc at a call site: a fresh even-length sequence of numbers (at least one pair)."""
    import z3
    from pyvc.values import SymSeq
    ctx = f.interp.ctx
    n = ctx.int("planArc.len", record=False)
    ctx.assume(z3.And(n >= 2, n % 2 == 0))
    arr = z3.Array(ctx.fresh_name("planArc.items"), z3.IntSort(), z3.RealSort())
    return SymSeq(n, lambda k: z3.Select(arr, k), name="planArc")


@contract(H + "planArc")
def _(c):
    c.result(fresh_pairs)
    c.modifies()
    c.caller_view("C16.ends-at-commanded-endpoint", lambda f: And(
        eq(f.result.get(f.result.length - 2), f.a.endX), eq(f.result.get(f.result.length - 1), f.a.endY)))
    c.log_calls = True
    c.use_modular()


@contract(H + "computeArcCenterOffsets")
def _(c):
    def result(f):
        ctx = f.interp.ctx
        return (ctx.real("arc.i", record=False), ctx.real("arc.j", record=False))
    c.result(result)
    c.modifies()
    c.log_calls = True
    c.use_modular()


def word_or(cmd, letter, default, k=None):
    w = last_word(cmd, letter, k)
    if w is None:
        return default
    if hasattr(w, "isnone"):
        return If(w.isnone, default, w.val)
    return w


def veq(a, b):
    """Numeric equality where either side may be an optional that is known to be present."""
    return eq(val(a), val(b))


def truthy_num(v):
    return Not(eq(v, 0))


@contract(H + "_handle_G2")
def _(c):
    def pre(b):
        st = mk_motion_state(b)
        h = mk_handlers(b, st)
        g = {"P": mk_printer(b)}
        b.spy(g, st, "processLinearMoves")
        b.spy(g, h, "planArc")
        b.spy(g, h, "computeArcCenterOffsets")
        gcode = ["G2", "G3"][b.choose(2, "G2 or G3")]
        return {"self": h, "args": {"cmd": b.gcode_command("cmd", code=gcode), "gcode": gcode, "subcode": None}, "ghost": g}
    c.pre(pre)
    c.requires("Inv", lambda f: inv_all(f.self.state, f.g["P"]))
    c.requires("I-E", lambda f: inv_e(f.self.state, f.g["P"]))

    def inv(L, k):
        src = L.cmd
        pos = L.f.old.self.state.position
        return And(veq(L.x, word_or(src, "X", A.n2l_current(pos.X_AXIS), k)), veq(L.y, word_or(src, "Y", A.n2l_current(pos.Y_AXIS), k)),
                   veq(L.z, word_or(src, "Z", A.n2l_current(pos.Z_AXIS), k)),
                   veq(L.i, word_or(src, "I", 0, k)), veq(L.j, word_or(src, "J", 0, k)),
                   *[Not(is_none(v)) for v in (L.x, L.y, L.z, L.i, L.j)] +
                   [opt_eq(L.radius, last_word(src, "R", k)),
                    opt_eq(L.extruderPosition, last_word(src, "E", k)), opt_eq(L.feedRate, last_word(src, "F", k))])
    c.loop(0, invariant=inv, havoc={"x": "real", "y": "real", "z": "real", "i": "real", "j": "real", "radius": "optreal",
                                    "extruderPosition": "optreal", "feedRate": "optreal"})

    def delegation(f):
        """The arc is planned from the RS274 reading of the command (last X Y Z E F I J / R, current position as
        default) and every planned point is handed to processLinearMoves; no centre offset => not handled."""
        cmd = f.a.cmd
        pos = f.old.self.state.position
        cw = f.a.gcode == "G2"
        x = word_or(cmd, "X", A.n2l_current(pos.X_AXIS))
        y = word_or(cmd, "Y", A.n2l_current(pos.Y_AXIS))
        z = word_or(cmd, "Z", A.n2l_current(pos.Z_AXIS))
        R = last_word(cmd, "R")
        cs = calls(f)
        names = [c_[0] for c_ in cs]
        conds = []
        idx = 0
        has_r = Not(is_none(R))
        if names[:1] == ["computeArcCenterOffsets"]:
            a = cs[0][1]
            conds += [has_r, veq(a["endX"], x), veq(a["endY"], y), veq(a["radius"], R), a["clockwise"] == cw]
            i, j = cs[0][2]
            idx = 1
        else:
            conds.append(Not(has_r))
            i, j = word_or(cmd, "I", 0), word_or(cmd, "J", 0)
        rest = names[idx:]
        if rest == []:
            return And(And(*conds), veq(i, 0), veq(j, 0), f.result is None, only_parser_written(f))
        if rest != ["planArc", "processLinearMoves"]:
            return False
        pa, plm = cs[idx], cs[idx + 1]
        a = pa[1]
        conds += [Or(truthy_num(val(i)), truthy_num(val(j))), veq(a["endX"], x), veq(a["endY"], y), veq(a["i"], i), veq(a["j"], j),
                  a["clockwise"] == cw]
        b_ = plm[1]
        same_pairs = (b_["xyPairs"] is pa[2]) or (getattr(f, "native", False) and list(b_["xyPairs"]) == list(pa[2]))
        conds += [same_pairs, (b_["cmd"] is cmd) or str_eq(b_["cmd"], cmd), opt_eq(b_["extruderPosition"], last_word(cmd, "E")),
                  opt_eq(b_["feedRate"], last_word(cmd, "F")), Not(is_none(b_["finalZ"])), veq(b_["finalZ"], z),
                  f.result is plm[2] or getattr(f, "native", False)]
        return And(*conds)
    c.ensures("C16.arc-delegation", delegation, props=("C16", "C19", "C01", "C02", "C03", "C04", "C05", "C08", "C09", "C14"))

    def endpoint(f):
        """The values handed on denote the RS274 end point of the arc in the current positioning mode (an axis
        without a word stays where it is)."""
        cs = calls(f, "processLinearMoves")
        if not cs:
            return True
        a = cs[0][1]
        pos = f.old.self.state.position
        cmd = f.a.cmd
        xy = a["xyPairs"]
        n = xy.length if hasattr(xy, "length") else len(xy)
        lx = xy.get(n - 2) if hasattr(xy, "get") else xy[-2]
        ly = xy.get(n - 1) if hasattr(xy, "get") else xy[-1]

        def ok(ax, handed, letter):
            cur = val(ax.current)
            return eq(RP.axis_target(ax, cur, handed), RP.opt_target(ax, cur, last_word(cmd, letter)))
        return And(ok(pos.X_AXIS, lx, "X"), ok(pos.Y_AXIS, ly, "Y"), ok(pos.Z_AXIS, val(a["finalZ"]), "Z"))
    # F14: arcs are planned in absolute logical coordinates whatever the positioning mode
    c.call_pre_case(S + "processLinearMoves", "arc-samples-absolute", "relative-positioning",
                    lambda f: Not(f.self.state.position.X_AXIS.absoluteMode))
    c.ensures("track.arc-endpoint-follows-file", endpoint, props=("C01", "C02", "C03", "C08", "C16"),
              cases={"relative-positioning": lambda f: Not(f.self.state.position.X_AXIS.absoluteMode)})


def only_parser_written(f):
    if getattr(f, "native", False):
        return True
    return all(cont is f.self.gcodeParser for (cont, key) in f.writes)


REGISTRY.get(H + "_handle_G2").summary(handler_summary("_handle_G2")).use_modular()


@contract(H + "_handle_G3")
def _(c):
    def pre(b):
        st = mk_motion_state(b)
        h = mk_handlers(b, st)
        g = {"P": mk_printer(b)}
        b.spy(g, h, "_handle_G2")
        return {"self": h, "args": {"cmd": b.gcode_command("cmd", code="G3"), "gcode": "G3", "subcode": None}, "ghost": g}
    c.pre(pre)
    c.requires("Inv", lambda f: inv_all(f.self.state, f.g["P"]))
    c.requires("I-E", lambda f: inv_e(f.self.state, f.g["P"]))

    def same_as_g2(f):
        cs = calls(f)
        return len(cs) == 1 and cs[0][0] == "_handle_G2" and (cs[0][1]["cmd"] is f.a.cmd) and cs[0][1]["gcode"] == "G3" \
            and f.result is cs[0][2]
    c.ensures("G3-is-G2-counter-clockwise", same_as_g2, props=("C16", "C19", "C01", "C03", "C09"))


# ------------------------------------------------------------------------------------------ G10 / G11 (firmware retraction)
def fw_inv(st, P, Ffw):
    """Firmware-retraction coupling (C05): with no recorded retraction neither side is retracted; with a recorded
    one the printer is retracted, and the file is too unless its recovery was skipped inside a region."""
    lr = st.lastRetraction
    if lr is None:
        return And(Not(Ffw), Not(P.fw))
    none = is_none(lr)
    return And(Implies(none, And(Not(Ffw), Not(P.fw))),
               Implies(Not(none), And(lr.firmwareRetract, P.fw, Iff(Ffw, Not(lr.recoverExcluded)))))


def fw_pre(b, code):
    st = mk_motion_state(b)
    h = mk_handlers(b, st)
    return {"self": h, "args": {"cmd": b.gcode_command("cmd", code=code), "gcode": code, "subcode": None},
            "ghost": {"P": mk_printer(b), "Ffw": b.bool("F.fw")}}


def fw_run(f, kind):
    if "run" not in f.__dict__:
        f.__dict__["run"] = RP.run(f.g["P"], f.old.self.state.position, f.result, f.a.cmd, RP.Orig(kind))
    return f.__dict__["run"]


@contract(H + "_handle_G10")
def _(c):
    c.pre(lambda b: fw_pre(b, "G10"))
    c.requires("Inv", lambda f: inv_all(f.self.state, f.g["P"]))
    c.requires("I-E", lambda f: inv_e(f.self.state, f.g["P"]))
    c.loop(0, invariant=lambda L, k: And(Not(has_word(L.cmd, "P", k)), Not(has_word(L.cmd, "L", k))), scratch=["_"])

    def tool_offset_form(f):
        return Or(has_word(f.a.cmd, "P"), has_word(f.a.cmd, "L"))

    c.ensures("G10-with-P-or-L-passes-through", lambda f: Implies(tool_offset_form(f), And(f.result is None, only_parser_written(f))),
              props=("C02", "C05", "C09"))

    def parity(f):
        Q, log = fw_run(f, "g10")
        # domain of C05: firmware retractions only (not mixed), coupling invariant holds before
        return Implies(And(fw_inv(f.old.self.state, f.g["P"], f.g["Ffw"]), Not(tool_offset_form(f))), And(fw_inv(f.self.state, Q, True), RP.same_xyz(Q, f.g["P"]), eq(Q.fil, f.g["P"].fil),
                                                     eq(Q.e, f.g["P"].e)))
    c.ensures("C05.firmware-retract-parity", parity, props=("C05", "C01", "C04"))
    c.ensures("Inv-preserved", lambda f: And(inv_all(f.self.state, fw_run(f, "g10")[0]), inv_e(f.self.state, fw_run(f, "g10")[0])),
              props=("C01", "C02", "C03", "C04", "C05"))
    c.ensures("C02.transparent", lambda f: Implies(J(f.old.self.state), And(RP.forwarded(f.result, f.a.cmd), J(f.self.state),
                                                                             len(RP.items_of(f.result) or [f.a.cmd]) == 1)), props=("C02",))
    c.ensures("C09.result-shape", lambda f: result_shape_ok(f.result), props=("C09",))


@contract(H + "_handle_G11")
def _(c):
    c.pre(lambda b: fw_pre(b, "G11"))
    c.requires("Inv", lambda f: inv_all(f.self.state, f.g["P"]))
    c.requires("I-E", lambda f: inv_e(f.self.state, f.g["P"]))

    def parity(f):
        Q, log = fw_run(f, "g11")
        return Implies(fw_inv(f.old.self.state, f.g["P"], f.g["Ffw"]), And(fw_inv(f.self.state, Q, False), RP.same_xyz(Q, f.g["P"]), eq(Q.fil, f.g["P"].fil), eq(Q.e, f.g["P"].e)))
    c.ensures("C05.firmware-recover-parity", parity, props=("C05", "C01", "C04"))
    c.ensures("Inv-preserved", lambda f: And(inv_all(f.self.state, fw_run(f, "g11")[0]), inv_e(f.self.state, fw_run(f, "g11")[0])),
              props=("C01", "C02", "C03", "C04", "C05"))
    c.ensures("C02.transparent", lambda f: Implies(J(f.old.self.state), And(RP.forwarded(f.result, f.a.cmd), J(f.self.state),
                                                                             len(RP.items_of(f.result) or [f.a.cmd]) == 1)), props=("C02",))
    c.ensures("C09.result-shape", lambda f: result_shape_ok(f.result), props=("C09",))


# ------------------------------------------------------------------------------------------ frame-setting handlers
def frame_pre(b, code, known=True):
    st = mk_motion_state(b, known=known)
    h = mk_handlers(b, st)
    return {"self": h, "args": {"cmd": b.gcode_command("cmd", code=code), "gcode": code, "subcode": None},
            "ghost": {"P": mk_printer(b)}}


def natives_kept(f):
    o, n = f.old.self.state.position, f.self.state.position
    return And(*[opt_eq(getattr(n, a).current, getattr(o, a).current) for a in ("X_AXIS", "Y_AXIS", "Z_AXIS", "E_AXIS")])


def frame_fields_kept(f, fields=("offset", "homeOffset", "absoluteMode", "unitMultiplier"), axes_=("X_AXIS", "Y_AXIS", "Z_AXIS", "E_AXIS")):
    o, n = f.old.self.state.position, f.self.state.position
    conds = []
    for a in axes_:
        for k in fields:
            x, y = getattr(getattr(n, a), k), getattr(getattr(o, a), k)
            conds.append(Iff(x, y) if k == "absoluteMode" else eq(x, y))
    return And(*conds)


def unit_contract(code, factor_num, factor_den):
    @contract(H + "_handle_" + code)
    def _(c):
        c.pre(lambda b: frame_pre(b, code))
        c.requires("Inv", lambda f: inv_all(f.self.state, f.g["P"]))
        c.requires("I-E", lambda f: inv_e(f.self.state, f.g["P"]))

        def post(f):
            n = f.self.state
            u_ok = And(*[eq(getattr(n.position, a).unitMultiplier * factor_den, factor_num) for a in ("X_AXIS", "Y_AXIS", "Z_AXIS", "E_AXIS")])
            return And(f.result is None, u_ok, eq(n.feedRateUnitMultiplier * factor_den, factor_num), natives_kept(f),
                       frame_fields_kept(f, fields=("offset", "homeOffset", "absoluteMode")))
        c.ensures("C08.units-set-natives-kept", post, props=("C08", "C03", "C02", "C09"))
        c.ensures("Inv-preserved", lambda f: And(inv_all(f.self.state, f.g["P"]), inv_e(f.self.state, f.g["P"])),
                  props=("C01", "C02", "C03", "C04", "C08", "C09"))
        c.ensures("C02.transparent", lambda f: Implies(J(f.old.self.state), J(f.self.state)), props=("C02",))


unit_contract("G20", 127, 5)
unit_contract("G21", 1, 1)


def mode_contract(code, absolute):
    @contract(H + "_handle_" + code)
    def _(c):
        c.pre(lambda b: frame_pre(b, code))
        c.requires("Inv", lambda f: inv_all(f.self.state, f.g["P"]))
        c.requires("I-E", lambda f: inv_e(f.self.state, f.g["P"]))

        def post(f):
            o, n = f.old.self.state, f.self.state
            xyz = And(*[Iff(getattr(n.position, a).absoluteMode, absolute) for a in ("X_AXIS", "Y_AXIS", "Z_AXIS")])
            e = If(o.g90InfluencesExtruder, Iff(n.position.E_AXIS.absoluteMode, absolute),
                   Iff(n.position.E_AXIS.absoluteMode, o.position.E_AXIS.absoluteMode))
            return And(f.result is None, xyz, e, natives_kept(f), frame_fields_kept(f, fields=("offset", "homeOffset", "unitMultiplier")))
        c.ensures("C08.mode-set-natives-kept", post, props=("C08", "C03", "C02", "C09"))
        c.ensures("Inv-preserved", lambda f: And(inv_all(f.self.state, f.g["P"]), inv_e(f.self.state, f.g["P"])),
                  props=("C01", "C02", "C03", "C04", "C08", "C09"))
        c.ensures("C02.transparent", lambda f: Implies(J(f.old.self.state), J(f.self.state)), props=("C02",))


mode_contract("G90", True)
mode_contract("G91", False)


@contract(H + "_handle_G28")
def _(c):
    c.pre(lambda b: frame_pre(b, "G28", known=None))
    c.requires("I-type-units", lambda f: inv_type_units(f.self.state))
    c.requires("I-excl", lambda f: inv_excl(f.self.state))
    c.loop(0, invariant=lambda L, k: And(Iff(L.homeX, has_word(L.cmd, "X", k)), Iff(L.homeY, has_word(L.cmd, "Y", k)),
                                         Iff(L.homeZ, has_word(L.cmd, "Z", k))),
           havoc={"homeX": "bool", "homeY": "bool", "homeZ": "bool"}, scratch=["_"])

    def post(f):
        cmd = f.a.cmd
        hx, hy, hz = has_word(cmd, "X"), has_word(cmd, "Y"), has_word(cmd, "Z")
        all_ = Not(Or(hx, hy, hz))
        o, n = f.old.self.state.position, f.self.state.position
        conds = [f.result is None]
        for a, h in (("X_AXIS", hx), ("Y_AXIS", hy), ("Z_AXIS", hz)):
            na, oa = getattr(n, a), getattr(o, a)
            homed = Or(h, all_)
            conds.append(If(homed, And(Not(is_none(na.current)), eq(val(na.current), 0), eq(na.offset, 0)),
                            And(opt_eq(na.current, oa.current), eq(na.offset, oa.offset))))
            conds.append(And(eq(na.homeOffset, oa.homeOffset), Iff(na.absoluteMode, oa.absoluteMode), eq(na.unitMultiplier, oa.unitMultiplier)))
        return And(*conds)
    c.ensures("C08.homing-resets-listed-axes", post, props=("C08", "C19", "C02", "C09", "C01", "C03", "C14"))
    c.ensures("C02.transparent", lambda f: Implies(J(f.old.self.state), J(f.self.state)), props=("C02",))
    # C01: nothing forwarded while an episode is open may move X/Y/Z -- but G28 is passed through unchanged
    c.ensures("C01.no-homing-motion-inside", lambda f: Not(f.old.self.state.excluding), props=("C01",),
              cases={"homing-inside-episode": lambda f: f.self.state.excluding})


def inv_type_units(st):
    pos = st.position
    u = st.feedRateUnitMultiplier
    return And(Or(eq(u, 1), eq(u * 5, 127)), *[eq(getattr(pos, a).unitMultiplier, u) for a in ("X_AXIS", "Y_AXIS", "Z_AXIS", "E_AXIS")])


@contract(H + "_handle_G92")
def _(c):
    c.pre(lambda b: frame_pre(b, "G92"))
    c.requires("Inv", lambda f: inv_all(f.self.state, f.g["P"]))
    c.requires("I-E", lambda f: inv_e(f.self.state, f.g["P"]))

    def mk_axis_havoc(name):
        return name

    def inv(L, k):
        """Fold of the words seen so far: each of E/X/Y/Z with a value has been applied in order; stated through the
        last-value reading (a later word of the same letter overrides an earlier one)."""
        src = L.cmd
        o = L.f.old.self.state.position
        n = L.position
        conds = []
        for a, letter in (("X_AXIS", "X"), ("Y_AXIS", "Y"), ("Z_AXIS", "Z")):
            na, oa = getattr(n, a), getattr(o, a)
            w = last_word(src, letter, k)
            conds += [eq(val(na.current), val(oa.current)), Not(is_none(na.current)),
                      Implies(is_none(w), eq(na.offset, oa.offset)),
                      Implies(Not(is_none(w)), eq((val(na.current) - (na.offset + na.homeOffset)) / na.unitMultiplier, val(w)))]
        we = last_word(src, "E", k)
        ne, oe = n.E_AXIS, o.E_AXIS
        conds += [Not(is_none(ne.current)),
                  Implies(is_none(we), eq(val(ne.current), val(oe.current))),
                  Implies(And(Not(is_none(we)), oe.absoluteMode), eq(val(ne.current), RP.axis_target(oe, val(oe.current), val(we), absolute=True)))]
        return And(*conds)
    c.loop(0, invariant=inv, havoc_fields=["position.X_AXIS.offset", "position.Y_AXIS.offset", "position.Z_AXIS.offset",
                                           "position.E_AXIS.current"])

    def post(f):
        cmd = f.a.cmd
        o, n = f.old.self.state.position, f.self.state.position
        conds = [f.result is None]
        for a, letter in (("X_AXIS", "X"), ("Y_AXIS", "Y"), ("Z_AXIS", "Z")):
            na, oa = getattr(n, a), getattr(o, a)
            w = last_word(cmd, letter)
            conds += [eq(val(na.current), val(oa.current)),                       # the tool does not move
                      Implies(is_none(w), eq(na.offset, oa.offset)),
                      Implies(Not(is_none(w)), eq(A.n2l_current(na), val(w))),   # ... and now reads the given value
                      eq(na.homeOffset, oa.homeOffset), Iff(na.absoluteMode, oa.absoluteMode), eq(na.unitMultiplier, oa.unitMultiplier)]
        we = last_word(cmd, "E")
        conds += [Implies(is_none(we), eq(val(n.E_AXIS.current), val(o.E_AXIS.current))),
                  Implies(And(Not(is_none(we)), o.E_AXIS.absoluteMode),
                          eq(val(n.E_AXIS.current), RP.axis_target(o.E_AXIS, val(o.E_AXIS.current), val(we), absolute=True)))]
        return And(*conds)
    c.ensures("C08.g92-rebases-without-moving", post, props=("C08", "C04", "C19", "C02", "C09"))

    def e_sync(f):
        """The forwarded G92 E sets the printer's E register to the same value the filter now tracks (I-E)."""
        cmd = f.a.cmd
        P = f.g["P"]
        we = last_word(cmd, "E")
        o = f.old.self.state.position
        Q = RP.do_g92_e(P, o, val(we)) if we is not None else P
        Qe = If(is_none(we), P.e, Q.e) if we is not None else P.e
        st = f.self.state
        return Implies(Not(st.excluding), eq(Qe, val(st.position.E_AXIS.current)))
    c.ensures("C04.g92-e-keeps-register-in-sync", e_sync, props=("C04",),
              cases={"g92-e-in-relative-extrusion": lambda f: Not(f.self.state.position.E_AXIS.absoluteMode)})
    c.ensures("C02.transparent", lambda f: Implies(J(f.old.self.state), J(f.self.state)), props=("C02",))


@contract(H + "_handle_M206")
def _(c):
    c.pre(lambda b: frame_pre(b, "M206"))
    c.requires("Inv", lambda f: inv_all(f.self.state, f.g["P"]))
    c.requires("I-E", lambda f: inv_e(f.self.state, f.g["P"]))
    c.loop(0, invariant=lambda L, k: And(*[Not(is_none(getattr(L.position, a).current)) for a in ("X_AXIS", "Y_AXIS", "Z_AXIS")]),
           havoc_fields=["position.%s.%s" % (a, fld) for a in ("X_AXIS", "Y_AXIS", "Z_AXIS") for fld in ("current", "homeOffset")])
    c.ensures("C09.returns-none", lambda f: f.result is None, props=("C09", "C02"))
    c.ensures("C02.transparent", lambda f: Implies(J(f.old.self.state), J(f.self.state)), props=("C02",))


# ------------------------------------------------------------------------------------------ dispatch
HANDLED = ("G0", "G1", "G2", "G3", "G10", "G11", "G20", "G21", "G28", "G90", "G91", "G92", "M206")

for _code in HANDLED:
    _con = REGISTRY.get(H + "_handle_" + _code)
    if _con.summary_fn is None:
        _con.summary(handler_summary("_handle_" + _code))
    _con.use_modular()


@contract(S + "processExtendedGcode")
def _(c):
    c.summary(state_summary("processExtendedGcode"))
    c.use_modular()


def deferred_domain_of(st, cmd, gcode):
    from contracts.deferred import deferred_domain
    return deferred_domain(st, cmd, upper_of(gcode) if gcode is not None else None)


def upper_of(g):
    if isinstance(g, str):
        return g.upper()
    from pyvc.stubs import STR_UPPER
    return STR_UPPER(g)


@contract(H + "handleGcode")
def _(c):
    def pre(b):
        st = mk_motion_state(b, extended=b.gcode_table())
        h = mk_handlers(b, st)
        g = {"P": mk_printer(b)}
        k = b.choose(len(HANDLED) + 2, "gcode")
        if k < len(HANDLED):
            gcode = HANDLED[k] if not b.native else HANDLED[k].lower()
        elif k == len(HANDLED):
            gcode = "M117"
        else:
            gcode = b.string("gcode")
        for code in HANDLED:
            b.spy(g, h, "_handle_" + code)
        b.spy(g, st, "processExtendedGcode")
        return {"self": h, "args": {"cmd": b.string("cmd"), "gcode": gcode, "subcode": None}, "ghost": g}
    c.pre(pre)
    c.requires("Inv", lambda f: inv_all(f.self.state, f.g["P"]))
    c.requires("I-E", lambda f: inv_e(f.self.state, f.g["P"]))
    c.requires("deferred-table-domain", lambda f: deferred_domain_of(f.self.state, f.a.cmd, f.a.gcode))

    def dispatch(f):
        cs = calls(f)
        if getattr(f, "native", False) and cs:
            # the native spies also see the handlers' own delegation (G1 -> G0, G3 -> G2), logged at return: the call
            # made by handleGcode itself is the one that returned last
            nested = {"_handle_G1": "_handle_G0", "_handle_G3": "_handle_G2"}
            if len(cs) == 2 and nested.get(cs[-1][0]) == cs[0][0]:
                cs = cs[-1:]
        if len(cs) != 1:
            return False
        name, a, tok = cs[0]
        up = upper_of(f.a.gcode)
        if name == "processExtendedGcode":
            target_ok = And(*[Not(str_eq(up, code)) for code in HANDLED])
            gc_ok = str_eq(a["gcode"], up)
        else:
            code = name[len("_handle_"):]
            target_ok = code in HANDLED and str_eq(up, code)
            gc_ok = str_eq(a["gcode"], up)
        same_cmd = (a["cmd"] is f.a.cmd) or str_eq(a["cmd"], f.a.cmd)
        return And(target_ok, gc_ok, same_cmd, a["subcode"] is f.a.subcode, (f.result is tok) or getattr(f, "native", False))
    c.ensures("C09.dispatch-exactly-one-handler", dispatch, props=("C09", "C01", "C02", "C03", "C04", "C05", "C14", "C19", "C06", "C20"))


# ------------------------------------------------------------------------------------------ @-commands (C14)
from contracts.motion import exit_structure, z_order_ok, tracked_xyz   # noqa: E402


def mk_at_entries(b, n, cmd):
    out = []
    for i in range(n):
        action = ["enable_exclusion", "disable_exclusion"][b.choose(2, "action %d" % i)]
        same = b.choose(2, "entry %d command equals?" % i) == 0
        pat = None if b.choose(2, "pattern %d None?" % i) == 0 else b.opaque_regex("p%d" % i)
        out.append(b.new("AtCommandAction", command=cmd if same else "SomethingElse", parameterPattern=pat, action=action,
                         description="entry %d" % i))
    return out


@contract(H + "handleAtCommand")
def _(c):
    def pre(b):
        st = mk_motion_state(b, enter="opaque")
        n = b.choose(4, "configured entries for this command")     # None, 0, 1, 2 entries (bounded: see evidence)
        cmd = "ExcludeRegion"
        table = {} if n == 0 else {cmd: b.list(mk_at_entries(b, n - 1, cmd))}
        st.atCommandActions = b.dict(table)
        h = mk_handlers(b, st)
        comm = b.comm(b.bool("streaming"))
        return {"self": h, "args": {"commInstance": comm, "cmd": cmd, "parameters": b.string("parameters")},
                "ghost": {"P": mk_printer(b)}}
    c.pre(pre)
    c.requires("Inv", lambda f: inv_all(f.self.state, f.g["P"]))

    def sent(f):
        return list(f.a.commInstance.sent)

    c.ensures("C14.streaming-changes-nothing", lambda f: Implies(f.a.commInstance.streaming, And(f.result is False, f.unchanged())),
              props=("C14",))
    c.ensures("C14.unhandled-changes-nothing", lambda f: Implies(f.result is False, f.unchanged()), props=("C14",))

    def effects(f):
        """Everything sent through the comm instance is an exit sequence: run on the printer it re-synchronises the
        position; afterwards the invariant holds again (so later decisions use the true position)."""
        st = f.self.state
        P = f.g["P"]
        Q, log = RP.run(P, st.position, sent(f), None, None)
        return And(inv_type(st), inv_excl(st), inv_pos(st, Q), inv_lastpos(st, Q),
                   Implies(len(sent(f)) > 0, And(Not(st.excluding), f.old.self.state.excluding,
                                                 z_order_ok(P, Q, log, tracked_xyz(st)[2]))),
                   Implies(len(sent(f)) == 0, RP.same_xyz(P, Q)))
    c.ensures("C14.disable-mid-episode-resynchronises", effects, props=("C14", "C03", "C01"))

    def last_action_wins(f):
        """With one matching entry: enable => enabled afterwards; disable => disabled and no episode open."""
        st = f.self.state
        tab = f.old.self.state.atCommandActions
        ents = tab.get("ExcludeRegion") if isinstance(tab, dict) else tab.d.get("ExcludeRegion")
        ents = list(ents) if ents is not None else []
        if len(ents) != 1 or f.result is not True:
            return True
        act = ents[0].action
        if act == "enable_exclusion":
            return And(st._exclusionEnabled, len(sent(f)) == 0)
        return And(Not(st._exclusionEnabled), Not(st.excluding))
    c.ensures("C14.single-action-effect", last_action_wins, props=("C14",))


@contract("AtCommandAction.AtCommandAction.matches")
def _(c):
    """C14 'matching no configured action': an entry matches iff the command names are equal and the parameter pattern --
    if there is one -- matches the parameter text AT ITS START (re.match; None parameters read as '').  Any other
    predicate of the text (search, fullmatch) is a different opaque predicate and fails the clause."""
    def pre(b):
        pat = None if b.choose(2, "pattern None?") == 0 else b.opaque_regex("p")
        ent = b.new("AtCommandAction", command=b.string("entry.command"), parameterPattern=pat, action="enable_exclusion",
                    description="entry")
        return {"self": ent, "args": {"command": b.string("command"), "parameters": b.optstr("parameters")}}
    c.pre(pre)
    c.modifies()

    def spec(f):
        pat = f.self.parameterPattern
        same = str_eq(f.self.command, f.a.command)
        if getattr(f, "native", False):
            want_text = "" if f.a.parameters is None else f.a.parameters
            if not same:
                return (not f.result) and (pat is None or pat.log == [])
            if pat is None:
                return bool(f.result)
            return len(pat.log) == 1 and pat.log[0][0] == "match" and pat.log[0][1] == want_text and bool(f.result) == pat.log[0][2]
        from pyvc.stubs import sstr_to_z3
        import z3
        calls = f.g.get("rx.opaque", [])
        truth = f.interp.truth_expr(f.result, None)
        if pat is None:
            return _iff(truth, same)
        ms = [(sym, arg) for (n, sym, arg) in calls if n == "match"]
        if ms:
            m = ms[0][0]
            p = f.a.parameters
            want = z3.If(p.isnone, z3.StringVal(""), p.val) if hasattr(p, "isnone") else sstr_to_z3(p)
            got = ms[0][1]
            got = got.val if hasattr(got, "isnone") else got
            got = z3.StringVal(got) if isinstance(got, str) else sstr_to_z3(got)
            arg_ok = (got == want) if got is not None else False
        else:
            m = z3.Bool("re.match!not-evaluated")      # the anchored match was never asked for: unrelated to the result
            arg_ok = True
        return And(arg_ok, _iff(truth, And(same, m)))
    c.ensures("C14.entry-matches-iff-command-equal-and-pattern-matches-at-start", spec, props=("C14",))


def _iff(a, b):
    if ops.is_sym(a) or ops.is_sym(b):
        return And(Implies(a, b), Implies(b, a))
    return bool(a) == bool(b)


# ------------------------------------------------------------------------------------------ C16: planArc (own verification)
from pyvc.ops import Cos, Sin, Pi, trig_addition, trig_chord, trig_period, trig_pythagoras, sq   # noqa: E402


def glen(lst):
    if hasattr(lst, "n"):
        return lst.n
    if hasattr(lst, "items"):
        return len(lst.items)
    return len(lst)


def gelem(lst, i):
    if hasattr(lst, "get"):
        return lst.get(i)
    if hasattr(lst, "items"):
        return lst.items[i]
    return lst[i]


def mk_growlist(ctx):
    from pyvc.growlist import GrowList
    return GrowList.symbolic(ctx, "rval")


def _planarc_contract():
    c = REGISTRY.get(H + "planArc")

    def pre(b):
        st = mk_motion_state(b, lastRetraction="opaque", lastPosition="opaque", enter="opaque", exit="opaque", pending="opaque")
        h = mk_handlers(b, st)
        return {"self": h, "args": {"endX": b.real("endX"), "endY": b.real("endY"), "i": b.real("i"), "j": b.real("j"),
                                    "clockwise": b.bool("clockwise")}}
    c.pre(pre)
    c.requires("position-known-units-ok", lambda f: inv_type(f.self.state))
    c.requires("centre-offset-nonzero", lambda f: Or(Not(eq(f.a.i, 0)), Not(eq(f.a.j, 0))))      # caller: `if (i or j)`

    def start(L):
        pos = L.f.old.self.state.position
        return A.n2l_current(pos.X_AXIS), A.n2l_current(pos.Y_AXIS)

    def inv(L, k):
        x0, y0 = start(L)
        cx, cy = x0 + L.i, y0 + L.j
        r2 = sq(L.i) + sq(L.j)
        r = L.radius
        T, inc, n = L.angularTravel, L.angularIncrement, L.numSegments
        cw = L.clockwise
        prev_x = If(k == 0, x0, gelem(L.rval, 2 * k - 2)) if not isinstance(k, int) or k > 0 else x0
        prev_y = If(k == 0, y0, gelem(L.rval, 2 * k - 1)) if not isinstance(k, int) or k > 0 else y0
        sweep = And(Implies(cw, And(-2 * Pi() <= T, T < 0)), Implies(Not(cw), And(0 <= T, T <= 2 * Pi())))
        return And(eq(glen(L.rval), 2 * k), r >= 0, eq(sq(r), r2), n >= 1, eq(inc * n, T), sweep,
                   eq(prev_x, cx + r * Cos(L.angle)), eq(prev_y, cy + r * Sin(L.angle)),
                   sq(r * inc) <= 1)

    def reveal(L, k):
        return [trig_addition(L.angle, L.angularIncrement), trig_chord(L.angularIncrement)]

    def check(L, k):
        """Facts about the sample appended in this iteration (index k, 0-based), for arbitrary k."""
        x0, y0 = start(L)
        cx, cy = x0 + L.i, y0 + L.j
        r2 = sq(L.i) + sq(L.j)
        nx, ny = gelem(L.rval, 2 * k), gelem(L.rval, 2 * k + 1)
        px = If(k == 0, x0, gelem(L.rval, 2 * k - 2))
        py = If(k == 0, y0, gelem(L.rval, 2 * k - 1))
        inc = L.angularIncrement
        a0, a1 = L.pre.angle, L.angle          # angle before / after this iteration (a1 is the term a0 + inc)
        r = L.radius
        step = And(eq(nx - px, r * (Cos(a1) - Cos(a0))), eq(ny - py, r * (Sin(a1) - Sin(a0))))
        chord = eq(sq(nx - px) + sq(ny - py), r2 * (2 - 2 * Cos(inc)))
        coords = And(eq(nx, cx + Cos(a1) * r), eq(ny, cy + Sin(a1) * r))
        return [("C16.lemma-sample-coordinates", coords),
                ("C16.sample-on-circle", eq(sq(nx - cx) + sq(ny - cy), r2), [coords, trig_pythagoras(a1), eq(sq(r), r2)]),
                # lemma chain: squared distance = r^2 (2 - 2 cos inc) <= (r inc)^2 <= 1
                ("C16.lemma-step-vector", step),
                ("C16.lemma-distance-is-chord", chord, [step, trig_addition(a0, inc), eq(sq(r), r2)]),
                ("C16.lemma-chord-below-arc", r2 * (2 - 2 * Cos(inc)) <= r2 * sq(inc), [trig_chord(inc), r2 >= 0]),
                ("C16.samples-at-most-one-unit-apart", sq(nx - px) + sq(ny - py) <= 1,
                 [chord, r2 * (2 - 2 * Cos(inc)) <= r2 * sq(inc), eq(sq(r), r2), sq(r * inc) <= 1])]

    def entry(L):
        """Lemmas at loop entry, each proved from a small set of facts (keeps the nonlinear queries small)."""
        r, T, inc, n, al = L.radius, L.angularTravel, L.angularIncrement, L.numSegments, L.arcLength
        x0, y0 = start(L)
        cx, cy = x0 + L.i, y0 + L.j
        absT = If(T >= 0, T, -T)
        f1 = And(al <= n, n >= 1)                                 # n = max(1, ceil(arc length)) >= arc length
        f2 = And(eq(al, absT * r), r >= 0, eq(inc * n, T))
        out = [("C16.lemma-segments-cover-arc", f1),
               ("C16.lemma-arc-length", f2),
               ("C16.lemma-increment-times-radius-at-most-one", sq(r * inc) <= 1, [f1, f2])]
        at = L.f.g.get("atan2") or []
        if len(at) >= 2:
            rec = at[1]           # angle = atan2(-j, -i): -i = rho cos(angle), -j = rho sin(angle), rho = hypot
            rho, t = rec["r"], rec["t"]
            facts = And(rho >= 0, eq(sq(rho), sq(L.i) + sq(L.j)), eq(-L.i, rho * Cos(t)), eq(-L.j, rho * Sin(t)), eq(L.angle, t))
            rfacts = And(r >= 0, eq(sq(r), sq(L.i) + sq(L.j)))
            out += [("C16.lemma-atan2-facts", facts), ("C16.lemma-radius-facts", rfacts),
                    ("C16.lemma-rho-is-radius", eq(rho, r), [facts, rfacts]),
                    ("C16.lemma-start-point-on-circle", And(eq(x0, cx + r * Cos(L.angle)), eq(y0, cy + r * Sin(L.angle))),
                     [facts, eq(rho, r)])]
        return out

    c.loop(0, invariant=inv, reveal=reveal, check=check, entry=entry,
           havoc={"angle": "real", "rval": mk_growlist}, scratch=["dummy"])
    c.loops[0].check_props = ("C16",)
    c.ensures("C16.ends-exactly-at-endpoint", lambda f: And(
        glen(f.result) >= 2, eq(glen(f.result) % 2, 0) if ops.is_sym(glen(f.result)) else glen(f.result) % 2 == 0,
        eq(gelem(f.result, glen(f.result) - 2), f.a.endX), eq(gelem(f.result, glen(f.result) - 1), f.a.endY)), props=("C16", "C01"))
    c.modifies()


_planarc_contract()


def _arc_centre_contract():
    c = REGISTRY.get(H + "computeArcCenterOffsets")

    def pre(b):
        st = mk_motion_state(b, lastRetraction="opaque", lastPosition="opaque", enter="opaque", exit="opaque", pending="opaque")
        return {"self": mk_handlers(b, st), "args": {"endX": b.real("endX"), "endY": b.real("endY"), "radius": b.real("radius"),
                                                     "clockwise": b.bool("clockwise")}}
    c.pre(pre)
    c.requires("position-known-units-ok", lambda f: inv_type(f.self.state))

    def geometry(f):
        pos = f.self.state.position
        p1, q1 = A.n2l_current(pos.X_AXIS), A.n2l_current(pos.Y_AXIS)
        dx, dy = f.a.endX - p1, f.a.endY - q1
        R = f.a.radius
        i, j = f.result
        defined = And(Not(eq(R, 0)), Or(Not(eq(dx, 0)), Not(eq(dy, 0))), (sq(dx) + sq(dy)) / 4 <= sq(R))
        return If(defined,
                  And(eq(sq(i) + sq(j), sq(R)), eq(sq(dx - i) + sq(dy - j), sq(R))),     # |R| from both end points
                  And(eq(i, 0), eq(j, 0)))

    def oblique(f):
        pos = f.self.state.position
        p1, q1 = A.n2l_current(pos.X_AXIS), A.n2l_current(pos.Y_AXIS)
        dx, dy = f.a.endX - p1, f.a.endY - q1
        return And(Not(eq(dx, 0)), Not(eq(dy, 0)), Not(eq((sq(dx) + sq(dy)) / 4, sq(f.a.radius))))
    c.ensures("C16.centre-equidistant-from-endpoints", geometry, props=("C16",),
              cases={"oblique-chord": oblique})

    def side(f):
        """The sign of R selects the arc: travelling from the start point in the commanded direction, the end point is
        reached after at most half a turn iff R > 0 (RS274 / Marlin: e = -1 if clockwise xor R < 0).  With the centre
        offset (i, j) and the chord (dx, dy): the counter-clockwise angle from start to end about the centre is below pi
        iff cross = j*dx - i*dy > 0."""
        pos = f.self.state.position
        p1, q1 = A.n2l_current(pos.X_AXIS), A.n2l_current(pos.Y_AXIS)
        dx, dy = f.a.endX - p1, f.a.endY - q1
        R = f.a.radius
        i, j = f.result
        cross = j * dx - i * dy
        proper = And(Not(eq(R, 0)), Or(Not(eq(dx, 0)), Not(eq(dy, 0))), (sq(dx) + sq(dy)) / 4 < sq(R))   # not a half circle
        minor_in_direction = If(f.a.clockwise, cross < 0, cross > 0)
        return Implies(proper, minor_in_direction == (R > 0))

    def not_vertical(f):
        pos = f.self.state.position
        return Not(eq(f.a.endX - A.n2l_current(pos.X_AXIS), 0))
    c.ensures("C16.radius-sign-selects-the-arc-side", side, props=("C16",), cases={"chord-not-vertical": not_vertical})


_arc_centre_contract()


def _planarc_native_clauses():
    """Natively evaluable forms of the per-sample facts (used when a counter-model / probe is replayed on the real
    code; symbolically they are established at the append site, see the loop contract)."""
    c = REGISTRY.get(H + "planArc")

    def samples(f):
        pos = f.old.self.state.position
        x0, y0 = A.n2l_current(pos.X_AXIS), A.n2l_current(pos.Y_AXIS)
        pts = [(x0, y0)] + [(f.result[k], f.result[k + 1]) for k in range(0, len(f.result) - 2, 2)]
        return x0 + f.a.i, y0 + f.a.j, pts

    def on_circle(f):
        if not getattr(f, "native", False) or f.exc is not None:
            return True
        cx, cy, pts = samples(f)
        r2 = f.a.i ** 2 + f.a.j ** 2
        return all(abs((px - cx) ** 2 + (py - cy) ** 2 - r2) <= 1e-6 * (1 + r2) for (px, py) in pts[1:])

    def spaced(f):
        if not getattr(f, "native", False) or f.exc is not None:
            return True
        cx, cy, pts = samples(f)
        return all((a[0] - b[0]) ** 2 + (a[1] - b[1]) ** 2 <= 1 + 1e-6 for a, b in zip(pts, pts[1:]))

    def direction(f):
        if not getattr(f, "native", False) or f.exc is not None:
            return True
        import math
        cx, cy, pts = samples(f)
        for a, b in zip(pts, pts[1:]):
            cross = (a[0] - cx) * (b[1] - cy) - (a[1] - cy) * (b[0] - cx)
            if abs(cross) > 1e-9 and (cross < 0) != bool(f.a.clockwise):
                return False
        return True
    c.ensures("C16.sample-on-circle", on_circle, props=("C16",))
    c.ensures("C16.samples-at-most-one-unit-apart", spaced, props=("C16",))
    c.ensures("loop0.inv-entry", direction, props=("C16",))


_planarc_native_clauses()


# ------------------------------------------------------------------------------------------ bookkeeping frame (C05 / C04)
def bookkeeping_kept(f):
    """The frame-setting handlers (units, modes, G28, G92, M206) touch the coordinate frame only: the retraction
    bookkeeping (an owed recovery!), the episode state and the deferred commands are what they were."""
    from contracts.plugin import deep_eq
    o, n = f.old.self.state, f.self.state
    return And(*[deep_eq(getattr(n, k), getattr(o, k)) for k in
                 ("lastRetraction", "lastPosition", "excluding", "_exclusionEnabled", "excludeStartTime", "numExcludedCommands")])


for _code in ("G20", "G21", "G90", "G91", "G28", "G92", "M206"):
    REGISTRY.get(H + "_handle_" + _code).ensures("C05.frame-handlers-keep-the-retraction-bookkeeping", bookkeeping_kept,
                                                 props=("C05", "C04", "C02", "C01", "C03", "C09"))

ID = "_hand"
LEVEL = "proof"
TAGS = ("C01", "C02", "C03", "C04", "C05", "C06", "C14", "C15", "C08", "C16", "C09", "C19")
CONTRACT_MODULES = ["contracts.geometry", "contracts.axis", "contracts.state", "contracts.plugin", "contracts.motion", "contracts.parserstub", "contracts.handlers"]
H = "GcodeHandlers.GcodeHandlers."
FUNCTIONS = [H + "_handle_G0", H + "_handle_G1", H + "_handle_G2", H + "_handle_G3", H + "_handle_G10", H + "_handle_G11"] + [H + "_handle_" + c for c in ("G20", "G21", "G90", "G91", "G28", "G92", "M206")]

"""Reference reading of an axis frame (RS274/Marlin): logical = (native - (offset + homeOffset)) / unit.
Written from the class's documented convention and the property statements (C03, C08), not from the
method bodies."""
from pyvc.ops import And, Or, Not, Implies, If, eq, is_none, val


def shift(ax):
    return ax.offset + ax.homeOffset


def l2n(ax, v, absolute=None):
    """Native position denoted by logical value v (v is a number, not None)."""
    m = ax.absoluteMode if absolute is None else absolute
    return If(m, v * ax.unitMultiplier + shift(ax), v * ax.unitMultiplier + val(ax.current))


def n2l_current(ax):
    """Logical (absolute) reading of the current native position."""
    return (val(ax.current) - shift(ax)) / ax.unitMultiplier


def n2l(ax, v, absolute=None):
    m = ax.absoluteMode if absolute is None else absolute
    return If(m, (v - shift(ax)) / ax.unitMultiplier, (v - val(ax.current)) / ax.unitMultiplier)


def unit_ok(ax):
    u = ax.unitMultiplier
    return Or(eq(u, 1), eq(u * 5, 127))      # 1 (mm) or 25.4 (inch)


def known(ax):
    return Not(is_none(ax.current))


def same_frame(a, b):
    return And(eq(a.offset, b.offset), eq(a.homeOffset, b.homeOffset), a.absoluteMode == b.absoluteMode
               if isinstance(a.absoluteMode, bool) and isinstance(b.absoluteMode, bool)
               else _iff(a.absoluteMode, b.absoluteMode), eq(a.unitMultiplier, b.unitMultiplier))


def _iff(a, b):
    from pyvc.ops import Iff
    return Iff(a, b)

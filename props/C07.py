from props.common import *
from props.boundedrun import script
ID = "C07"
LEVEL = "other"
TAGS = ("C07",)
CONTRACT_MODULES = ALL_CONTRACTS
FUNCTIONS = [S + "exitExcludedRegion", S + "disableExclusion", S + "processLinearMoves", "RetractionState.RetractionState._addCommands",
             H + "_handle_G10", H + "_handle_G11", H + "handleAtCommand", "GcodeParser.GcodeParser.buildCommand", "GcodeParser.formatNumber"]
ASSUMPTIONS = ["A1", "A2", "A4"]
BOUNDED = [script("format_number.py"), script("retract_params.py"), script("merge_roundtrip.py")]
EXTRA_ASSUMPTIONS = ["'yields exactly the intended values': the interpolated values are the ones C03/C04 prove correct; this property adds that their rendering is readable",
                     "G10/G11 copy the parameter text of the original command verbatim (not synthesised numbers)",
                     "non-finite floats (inf/nan) are outside A1",
                     "buildCommand is executed symbolically for argument maps of 0..3 parameters (bounded in that number only) and additionally checked bounded on random argument maps"]
EXPLANATION = ("Deductive part (data flow + template shape): in every command returned by exitExcludedRegion, disableExclusion, "
               "processLinearMoves (retraction / recovery / G92 E re-sync), _addCommands, the G10/G11 handlers and handleAtCommand, every "
               "interpolated number went through GcodeParser.formatNumber, and the text around the numbers reads -- with an independent "
               "RS274 reader -- as one G/M code followed by distinct letters. formatNumber itself: over ASSUMED contracts of the builtins it "
               "rests on (str(float) is plain decimal or d.ddde[+-]dd text, str(int) a numeral, Decimal(t) raises unless t is a decimal "
               "literal, format(d, 'f') has no exponent; each text denoting the same number) its result is plain decimal text denoting "
               "exactly the argument for every finite float and every int, a string argument comes back unchanged, nothing is raised. "
               "Bounded part (which also exercises those builtin contracts on CPython): formatNumber "
               "never yields exponent notation, keeps the exact value and is read back correctly, on the stated finite set of doubles "
               "(coverage.bounded). buildCommand on merged argument maps: deductive for 0..3 symbolic parameters (every number through "
               "formatNumber, distinct letters, each value read back exactly, None as a bare letter), bounded on random maps.")
TECHNIQUE = "contracts (data-flow of interpolated numbers through the formatter, template tokenised by an independent reader; formatNumber and buildCommand against assumed contracts of str/Decimal/format) + bounded check of the formatter on CPython"
BREAKERS = [{'desc': 'exit move repeats the X letter',
  'functions': ['ExcludeRegionState.ExcludeRegionState.exitExcludedRegion'],
  'module': 'ExcludeRegionState',
  'new': '            "G0 F{f} X{x} X{y}".format(',
  'old': '            "G0 F{f} X{x} Y{y}".format('},
 {'bounded': True,
  'desc': 'formatNumber leaves exponent notation',
  'functions': ['GcodeParser.formatNumber'],
  'module': 'GcodeParser',
  'new': '        text = text\n',
  'old': '        text = format(Decimal(text), "f")\n'},
 {'desc': 'exit X coordinate interpolates a raw float',
  'functions': ['ExcludeRegionState.ExcludeRegionState.exitExcludedRegion'],
  'module': 'ExcludeRegionState',
  'new': '                x=self._logicalMoveTo(self.position.X_AXIS, self.lastPosition.X_AXIS),',
  'old': '                x=formatNumber(self._logicalMoveTo(self.position.X_AXIS, self.lastPosition.X_AXIS)),'},
 {'desc': 'retraction G92 E interpolates a raw float (original F7)',
  'functions': ['RetractionState.RetractionState._addCommands', 'ExcludeRegionState.ExcludeRegionState.processLinearMoves'],
  'module': 'RetractionState',
  'new': '                "G92 E{e}".format(e=eAxis.nativeToLogical())',
  'old': '                "G92 E{e}".format(e=formatNumber(eAxis.nativeToLogical()))'}]

#!/venv/bin/python
"""tools/probe_one.py <function> <seed> [repo] [clause] -- show one pseudo-random native probe in detail."""
import json
import os
import sys
VERIF = os.path.dirname(os.path.dirname(os.path.abspath(__file__)))
sys.path.insert(0, VERIF)
from props.common import ALL_CONTRACTS  # noqa
from pyvc import native  # noqa
from pyvc.driver import load_known_findings  # noqa
q, seed = sys.argv[1], int(sys.argv[2])
repo = sys.argv[3] if len(sys.argv) > 3 else "/repo"
clause = sys.argv[4] if len(sys.argv) > 4 else "*"
active = {}
for fd in load_known_findings():
    active.setdefault(fd["obligation"], []).append(fd["case"])
out = native.replay({"repo": repo, "verif": VERIF, "function": q, "obligation": q + "/" + clause, "model": {"__random__": seed},
                     "choices": [], "contract_modules": ALL_CONTRACTS, "active_cases": active})
for k in ("reproduced", "detail", "pre_holds_natively", "pre_false", "failed_clause", "raised", "known_finding_cases_entered", "clause_traceback"):
    if k in out:
        print(k, ":", out[k])
print("inputs :", json.dumps(out.get("inputs"))[:int(os.environ.get("W", "1500"))])
print("result :", json.dumps(out.get("result"))[:800])
print("ghost  :", json.dumps(out.get("ghost"))[:600])

#!/usr/bin/env python3
"""Runs the pinned test-suite of /repo (or $1) and compares the passing set with BASELINE.json's stable_pass."""
import json, subprocess, sys, tempfile, os, xml.etree.ElementTree as ET
repo = sys.argv[1] if len(sys.argv) > 1 else "/repo"
base = json.load(open("/root/.vp/BASELINE.json"))
out = tempfile.mktemp(suffix=".xml")
subprocess.run(["/venv/bin/python", "-m", "pytest", "-ra", "-q", "-p", "no:cacheprovider", "--timeout=900",
                "--continue-on-collection-errors", "--junitxml=" + out], cwd=repo, capture_output=True)
passed = set()
for tc in ET.parse(out).getroot().iter("testcase"):
    if not any(ch.tag in ("failure", "error", "skipped") for ch in tc):
        passed.add("%s::%s" % (tc.get("classname"), tc.get("name")))
os.unlink(out)
want = set(base["stable_pass"])
missing = sorted(want - passed)
print("stable_pass: %d, passing now: %d, missing: %d" % (len(want), len(passed), len(missing)))
for m in missing[:20]:
    print("  MISSING", m)
sys.exit(1 if missing else 0)

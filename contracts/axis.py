"""Contracts for AxisPosition and Position (used by C03, C08, C01, C04, C10)."""
from pyvc.contracts import contract
from pyvc.ops import And, Or, Not, Implies, Iff, If, eq, is_none, val
from spec import axis as A


def mk_axis(b, name, known=None, unit_free=False):
    if known is True:
        cur = b.real(name + ".current")
    elif known is False:
        cur = None
    else:
        cur = b.optreal(name + ".current")
    return b.new("AxisPosition", current=cur, homeOffset=b.real(name + ".homeOffset"),
                 offset=b.real(name + ".offset"), absoluteMode=b.bool(name + ".absoluteMode"),
                 unitMultiplier=b.real(name + ".unitMultiplier"))


def mk_position(b, name, known=None):
    return b.new("Position", X_AXIS=mk_axis(b, name + ".X", known), Y_AXIS=mk_axis(b, name + ".Y", known),
                 Z_AXIS=mk_axis(b, name + ".Z", known), E_AXIS=mk_axis(b, name + ".E", True))


def opt_mode(b):
    k = b.choose(3, "absoluteMode argument")
    return [None, True, False][k]


def eff_mode(f):
    m = f.a.absoluteMode
    return f.self.absoluteMode if m is None else m


def axis_unchanged_except(f, *fields):
    conds = []
    for k in ("current", "homeOffset", "offset", "absoluteMode", "unitMultiplier"):
        if k in fields:
            continue
        a, o = getattr(f.self, k), getattr(f.old.self, k)
        if k == "current":
            conds.append(Or(And(is_none(a), is_none(o)), And(Not(is_none(a)), Not(is_none(o)), eq(val(a), val(o)))))
        elif k == "absoluteMode":
            conds.append(Iff(a, o))
        else:
            conds.append(eq(a, o))
    return And(*conds)


@contract("AxisPosition.AxisPosition.logicalToNative")
def _(c):
    def pre(b):
        k = b.choose(2, "value None?")
        return {"self": mk_axis(b, "ax"), "args": {"value": None if k == 0 else b.real("value"),
                                                   "absoluteMode": opt_mode(b)}}
    c.pre(pre)
    c.requires("relative-needs-known-position",
               lambda f: True if f.a.value is None else Or(eff_mode(f), A.known(f.self)))
    c.modifies()
    c.ensures("l2n-spec", lambda f: (
        (is_none(f.result) == is_none(f.self.current) if isinstance(is_none(f.self.current), bool)
         else Iff(is_none(f.result), is_none(f.self.current))) if f.a.value is None
        else eq(f.result, A.l2n(f.self, f.a.value, eff_mode(f)))), props=("C03", "C08", "C01", "C04"))
    c.ensures("l2n-none-is-current", lambda f: (
        Implies(Not(is_none(f.self.current)), eq(val(f.result), val(f.self.current))) if f.a.value is None else True),
        props=("C03", "C08"))


@contract("AxisPosition.AxisPosition.nativeToLogical")
def _(c):
    def pre(b):
        k = b.choose(2, "value None?")
        return {"self": mk_axis(b, "ax"), "args": {"value": None if k == 0 else b.real("value"),
                                                   "absoluteMode": opt_mode(b)}}
    c.pre(pre)
    c.requires("unit-nonzero", lambda f: Not(eq(f.self.unitMultiplier, 0)))
    c.requires("needs-known-position",
               lambda f: A.known(f.self) if f.a.value is None else Or(eff_mode(f), A.known(f.self)))
    c.modifies()
    c.ensures("n2l-spec", lambda f: eq(f.result, A.n2l_current(f.self)) if f.a.value is None
              else eq(f.result, A.n2l(f.self, f.a.value, eff_mode(f))), props=("C03", "C08", "C04", "C07"))
    # the two conversions are inverse (absolute reading): l2n(n2l()) = current
    c.ensures("C08.roundtrip", lambda f: eq(A.l2n(f.self, f.result, True), val(f.self.current))
              if f.a.value is None else True, props=("C08", "C03"))


@contract("AxisPosition.AxisPosition.setLogicalPosition")
def _(c):
    def pre(b):
        k = b.choose(2, "position None?")
        return {"self": mk_axis(b, "ax"), "args": {"position": None if k == 0 else b.real("position")}}
    c.pre(pre)
    c.requires("relative-needs-known-position",
               lambda f: True if f.a.position is None else Or(f.self.absoluteMode, A.known(f.self)))
    c.modifies("self.current")
    c.ensures("slp-spec", lambda f: (axis_unchanged_except(f) if f.a.position is None else
                                    And(Not(is_none(f.self.current)),
                                        eq(val(f.self.current), A.l2n(f.old.self, f.a.position)))),
              props=("C03", "C08", "C01", "C04"))
    c.ensures("slp-returns-current", lambda f: (
        Or(And(is_none(f.result), is_none(f.self.current)),
           And(Not(is_none(f.result)), Not(is_none(f.self.current)), eq(val(f.result), val(f.self.current))))),
        props=("C01", "C04"))


@contract("AxisPosition.AxisPosition.setLogicalOffsetPosition")
def _(c):
    c.pre(lambda b: {"self": mk_axis(b, "ax", known=True), "args": {"offset": b.real("v")}})
    c.requires("unit-nonzero", lambda f: Not(eq(f.self.unitMultiplier, 0)))
    c.modifies("self.offset")
    # C08 / G92: afterwards the logical position reads v and the native position is unchanged
    c.ensures("C08.g92-rebase", lambda f: eq(A.n2l_current(f.self), val(f.a.offset)), props=("C08",),
              cases={"g92-changes-logical-position": lambda f: Not(eq(A.n2l_current(f.self), val(f.a.offset))),
                     "g92-in-relative-mode": lambda f: Not(f.self.absoluteMode)})
    c.ensures("native-position-kept", lambda f: eq(val(f.self.current), val(f.old.self.current)), props=("C08", "C01"))
    c.use_modular()


@contract("AxisPosition.AxisPosition.setHome")
def _(c):
    c.pre(lambda b: {"self": mk_axis(b, "ax"), "args": {}})
    c.modifies("self.current", "self.offset")
    c.ensures("home-spec", lambda f: And(Not(is_none(f.self.current)), eq(val(f.self.current), 0), eq(f.self.offset, 0)),
              props=("C08", "C03", "C09"))


@contract("AxisPosition.AxisPosition.setUnitMultiplier")
def _(c):
    c.pre(lambda b: {"self": mk_axis(b, "ax"), "args": {"unitMultiplier": b.real("u")}})
    c.modifies("self.unitMultiplier")
    c.ensures("unit-set", lambda f: eq(f.self.unitMultiplier, f.a.unitMultiplier), props=("C08", "C03"))


@contract("AxisPosition.AxisPosition.setAbsoluteMode")
def _(c):
    c.pre(lambda b: {"self": mk_axis(b, "ax"), "args": {"absoluteMode": b.bool("m")}})
    c.modifies("self.absoluteMode")
    c.ensures("mode-set", lambda f: Iff(f.self.absoluteMode, f.a.absoluteMode), props=("C08", "C03"))


@contract("AxisPosition.AxisPosition.__init__")
def _(c):
    def pre(b):
        k = b.choose(2, "copy-constructor?")
        if k == 0:
            return {"self": b.new("AxisPosition"), "args": {"current": mk_axis(b, "src")}, "ghost": {"copy": True}}
        return {"self": b.new("AxisPosition"),
                "args": {"current": b.optreal("current"), "homeOffset": b.real("homeOffset"), "offset": b.real("offset"),
                         "absoluteMode": b.bool("absoluteMode"), "unitMultiplier": b.real("unitMultiplier")},
                "ghost": {"copy": False}}
    c.pre(pre)

    def post(f):
        src = f.a.current if f.g["copy"] else f.a
        cur = src.current
        return And(Or(And(is_none(f.self.current), is_none(cur)),
                      And(Not(is_none(f.self.current)), Not(is_none(cur)), eq(val(f.self.current), val(cur)))),
                   eq(f.self.homeOffset, src.homeOffset), eq(f.self.offset, src.offset),
                   Iff(f.self.absoluteMode, src.absoluteMode), eq(f.self.unitMultiplier, src.unitMultiplier))
    c.ensures("init-copies-all-fields", post, props=("C03", "C10", "C20"))

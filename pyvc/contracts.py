"""Sidecar contract DSL and registry (DESIGN.md 2.3)."""


class LoopSpec(object):
    def __init__(self, invariant, havoc=None, havoc_fields=None, scratch=None, name=None, reveal=None, check=None, entry=None):
        self.entry = entry                  # fn(L) -> list of (name, goal[, using]) lemmas proved at loop entry, in order
        self.invariant = invariant          # fn(L, k) -> Bool ; L = view of locals (+ L.f = frame)
        self.havoc = dict(havoc or {})      # local name -> kind ('real','int','bool','optreal', callable(ctx))
        self.havoc_fields = list(havoc_fields or [])  # paths rooted at a local, e.g. "xAxis.current"
        self.scratch = list(scratch or [])
        self.name = name
        self.reveal = reveal                # fn(L, k) -> list of definitional equations (ops.OpaqueFn.reveal)
        self.check = check                  # fn(L, k) -> list of (name, formula) obligations after the body of iteration k


class Clause(object):
    def __init__(self, name, fn, props=(), cases=None, lemma=False):
        self.name = name
        self.fn = fn
        self.lemma = lemma          # proved first and then available as a hypothesis for the later clauses
        self.props = tuple(props)
        self.cases = dict(cases or {})   # known-finding guards: label -> fn(f) (over the pre-state)


class Contract(object):
    def __init__(self, qualname):
        self.qualname = qualname
        self.modular = False
        self.pre_builder = None
        self.requires_ = []
        self.ensures_ = []
        self.modifies_ = None        # None = not checked ; list of path strings / callables
        self.raises_ = []            # (tname, when, ensures)
        self.loops = {}
        self.result_kind = None      # for modular use
        self.summary_fn = None
        self.ghost_entry = None
        self.ghost_exit = None
        self.cases_ = None
        self.notes = []
        self.inline_callees = set()
        self.variants = None         # list of (label, builder) pre-state variants
        self.canary_ok = True
        self.reveal_ = []
        self.caller_view_ = []
        self.split_depth = None      # explore sub-trees below this decision depth in parallel
        self.log_calls = False       # call sites append (name, args, result) to the ghost call log
        self.force_modular = False   # external stub: used through its summary even when everything else is inlined
        self.call_cases = {}         # (callee qualname, requires name) -> {label: guard(f of the caller)}
        self.native_incomplete = False   # the native pre-state lacks framework objects the real code needs (flask, streams):
                                         # an exception of the real code under a pseudo-random probe proves nothing

    # --- DSL ---------------------------------------------------------------
    def pre(self, builder):
        self.pre_builder = builder
        return self

    def requires(self, name, fn=None):
        if fn is None:
            name, fn = "pre%d" % len(self.requires_), name
        self.requires_.append(Clause(name, fn))
        return self

    def ensures(self, name, fn, props=(), cases=None, lemma=False):
        self.ensures_.append(Clause(name, fn, props, cases, lemma))
        return self

    def modifies(self, *paths):
        if self.modifies_ is None:
            self.modifies_ = []
        self.modifies_.extend(paths)
        return self

    def raises(self, tname, when=None):
        self.raises_.append((tname, when))
        return self

    def loop(self, ordinal, invariant, havoc=None, havoc_fields=None, scratch=None, reveal=None, check=None, entry=None):
        self.loops[ordinal] = LoopSpec(invariant, havoc, havoc_fields, scratch, reveal=reveal, check=check, entry=entry)
        return self

    def reveal(self, fn):
        """fn(f) -> list of definitional equations (instances of opaque spec functions) available when the
        post-conditions are checked."""
        self.reveal_.append(fn)
        return self

    def caller_view(self, name, fn):
        """Post-condition as seen by callers (over opaque spec functions).  Must follow from the proved
        ensures clauses by unfolding definitions; listed in the evidence."""
        self.caller_view_.append(Clause(name, fn))
        return self

    def result(self, kind):
        self.result_kind = kind
        return self

    def summary(self, fn):
        self.summary_fn = fn
        return self

    def call_pre_case(self, callee, requires_name, label, guard):
        """Known-finding guard for a callee precondition this function does not establish."""
        self.call_cases.setdefault((callee, requires_name), {})[label] = guard
        return self

    def split(self, depth):
        self.split_depth = depth
        return self

    def use_modular(self, flag=True):
        self.modular = flag
        return self


class Registry(object):
    def __init__(self):
        self.contracts = {}

    def contract(self, qualname):
        def deco(fn):
            c = self.contracts.get(qualname)
            if c is None:
                c = Contract(qualname)
                self.contracts[qualname] = c
            fn(c)
            return fn
        return deco

    def get(self, qualname):
        return self.contracts.get(qualname)


REGISTRY = Registry()
contract = REGISTRY.contract

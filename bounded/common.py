"""Helpers for the bounded stand-in checks.  These scripts run the REAL code under /venv/bin/python, enumerate a stated
finite space, and print one JSON object.  They are labelled `bounded` in the evidence and never counted as proved."""
from __future__ import print_function

import itertools
import json
import os
import sys


def setup(repo):
    sys.path.insert(0, repo)
    sys.path.insert(0, os.path.dirname(os.path.dirname(os.path.abspath(__file__))))


def emit(result):
    json.dump(result, sys.stdout)
    sys.stdout.write("\n")


def strings_upto(alphabet, n):
    for k in range(n + 1):
        for tup in itertools.product(alphabet, repeat=k):
            yield "".join(tup)

ID = "_mot"
LEVEL = "proof"
TAGS = ("C01", "C02", "C03", "C04", "C05", "C06", "C14", "C15", "C08", "C16", "C09")
CONTRACT_MODULES = ["contracts.geometry", "contracts.axis", "contracts.state", "contracts.plugin", "contracts.motion"]
S = "ExcludeRegionState.ExcludeRegionState."
FUNCTIONS = ["RetractionState.RetractionState._addCommands", S + "enterExcludedRegion", S + "exitExcludedRegion", S + "isAnyPointExcluded", S + "processLinearMoves"]

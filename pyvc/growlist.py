"""A python list of numbers that is only appended to, of symbolic length (planArc's `rval`)."""
import z3

from . import ops
from .values import Model, PyList, SymSeq, Unsupported, next_oid, to_real


class GrowList(Model):
    clsname = "list"

    def __init__(self, n, arr):
        self.n = n
        self.arr = arr
        self.oid = next_oid()
        self.fresh = True
        self.loop_local = True

    @classmethod
    def symbolic(cls, ctx, name="rval"):
        n = ctx.int(name + ".len", record=False)
        ctx.assume(n >= 0, definitional=True)
        arr = z3.Array(ctx.fresh_name(name + ".items"), z3.IntSort(), z3.RealSort())
        return cls(n, arr)

    @property
    def length(self):
        return self.n

    def get(self, i):
        return z3.Select(self.arr, i)

    def iadd(self, interp, other, node):
        items = other.items if isinstance(other, PyList) else list(other)
        interp.ctx.log_write(self, "[]")
        for it in items:
            self.arr = z3.Store(self.arr, self.n, to_real(interp.num(it, node)))
            self.n = self.n + 1
        return self

    def call_method(self, interp, name, args, kwargs, node):
        if name == "__len__":
            return self.n
        if name == "__iter__":
            return SymSeq(self.n, self.get, name="rval")
        if name == "__bool__":
            return self.n > 0
        raise Unsupported("list.%s on a growing list" % name, node)

    def copy(self, memo=None):
        return GrowList(self.n, self.arr)

    def struct_eq(self, other):
        raise Unsupported("comparison of growing lists")

    def read(self, key):
        return self

"""Reference automaton of the print lifecycle (C11), written from the property statement."""
ENDING = ("PrintDone", "PrintFailed", "PrintCancelling", "PrintCancelled", "Error")
STARTED = "PrintStarted"
FILE_SELECTED = "FileSelected"
SETTINGS_UPDATED = "SettingsUpdated"
NEUTRAL = ("PrintPaused", "PrintResumed")
KNOWN = ENDING + (STARTED, FILE_SELECTED, SETTINGS_UPDATED) + NEUTRAL


def step(active, event, clear_after_print):
    """-> (active', regions_cleared, per_print_state_reset); event is a concrete string
    (None stands for any event name not in KNOWN); the flags may be symbolic."""
    if event == STARTED:
        return True, False, True
    if event in ENDING:
        return False, clear_after_print, clear_after_print
    if event == FILE_SELECTED:
        return active, True, True
    return active, False, False

ID = "C11"
LEVEL = "proof"
TAGS = ("C11",)
from props.common import ALL_CONTRACTS
CONTRACT_MODULES = ALL_CONTRACTS
P = "__init__.ExcludeRegionPlugin."
FUNCTIONS = [P + "on_event", P + "handleGcodeQueuing", P + "handleAtCommandQueuing", P + "handleScriptHook",
             "ExcludeRegionState.ExcludeRegionState.resetState", "__init__.ExcludeRegionPlugin._handleSettingsUpdated", P + "initialize"]
ASSUMPTIONS = ["A1", "A3", "A4", "INDUCTION"]
EXTRA_ASSUMPTIONS = ["Events.SETTINGS_UPDATED is outside the on_event contract: _handleSettingsUpdated (settings plumbing) is unverified surroundings",
                     "GcodeHandlers.handleGcode/handleAtCommand are seen by the hooks through a delegation summary (call logged, state havocked)"]
EXPLANATION = ("Hooks: with no active job the three hooks return None with an empty write set and delegate nothing; "
               "with an active job they delegate exactly once with the same arguments. on_event implements the "
               "reference automaton spec/lifecycle.py for every event name (known names enumerated, one symbolic "
               "name distinct from all of them). _handleSettingsUpdated sets clearRegionsAfterPrintFinishes (and every other flag) from its own settings key.")
BREAKERS = [
    {"module": "__init__", "old": "        self._activePrintJob = False\n        self.state = ExcludeRegionState(self._logger)",
     "new": "        self._activePrintJob = True\n        self.state = ExcludeRegionState(self._logger)",
     "desc": "the plugin starts with a print flagged active", "functions": [P + "initialize"]},
    {"module": "__init__", "old": "if (gcode and self.isActivePrintJob):", "new": "if (gcode):",
     "desc": "gcode hook ignores the active-job guard", "functions": [P + "handleGcodeQueuing"]},
    {"module": "__init__", "old": "            self._activePrintJob = False\n", "new": "            pass\n",
     "desc": "print end does not clear the active flag", "functions": [P + "on_event"]},
    {"module": "__init__", "old": "                Events.ERROR\n", "new": "                Events.ERROR, Events.PRINT_PAUSED\n",
     "desc": "pause treated as end of print", "functions": [P + "on_event"]},
    {"module": "__init__", "old": "        if (self.isActivePrintJob):\n            self.gcodeHandlers.handleAtCommand", "new": "        if (True):\n            self.gcodeHandlers.handleAtCommand",
     "desc": "@-command hook ignores the active-job guard", "functions": [P + "handleAtCommandQueuing"]},
    {"module": "__init__", "old": "            if (self.clearRegionsAfterPrintFinishes):", "new": "            if (not self.clearRegionsAfterPrintFinishes):",
     "desc": "clear-after-print setting inverted", "functions": [P + "on_event"]},
]

ID = "C13"
LEVEL = "proof"
TAGS = ("C13",)
from props.common import ALL_CONTRACTS
CONTRACT_MODULES = ALL_CONTRACTS
P = "__init__.ExcludeRegionPlugin."
S = "ExcludeRegionState.ExcludeRegionState."
FUNCTIONS = [P + "on_api_command", P + "on_api_get", P + "_notifyExcludedRegionsChanged", P + "_handleAddExcludeRegion",
             P + "_handleDeleteExcludeRegion", P + "_handleUpdateExcludeRegion", P + "on_event",
             S + "addRegion", S + "deleteRegion", S + "replaceRegion", S + "getRegion", S + "resetState",
             "RectangularRegion.RectangularRegion.__init__", "CircularRegion.CircularRegion.__init__"] + ["CommonMixin.CommonMixin.toDict", P + "initialize"]
ASSUMPTIONS = ["A1", "A3", "A4", "INDUCTION"]
EXTRA_ASSUMPTIONS = ["CommonMixin.toDict is an injective view of a region's class and fields (payload equality is equality of region values)",
                     "uuid4 ids are unconstrained strings (collisions are handled by addRegion's check)"]
EXPLANATION = ("Unique-id invariant preserved by every registry operation and API request (whole-list-view post-conditions "
               "with loop invariants over a list of symbolic length); anonymous/rejected requests leave the list untouched; "
               "every list change is followed by exactly one notification whose payload equals the new list in order, as "
               "does the GET response; file selection / clearing at print end reset and notify once.")
BREAKERS = [
    {"module": "CommonMixin", "old": "        result['type'] = self.__class__.__name__\n", "new": "        result['type'] = self.__class__.__name__\n        result.pop('id', None)\n",
     "desc": "region dictionaries lose the id", "functions": ["CommonMixin.CommonMixin.toDict"]},{'desc': 'addRegion accepts a duplicate id',
  'functions': ['ExcludeRegionState.ExcludeRegionState.addRegion'],
  'module': 'ExcludeRegionState',
  'new': '        if (True):',
  'old': '        if (self.getRegion(region.id) is None):'},
 {'desc': 'notification payload is not the current list',
  'functions': ['__init__.ExcludeRegionPlugin._notifyExcludedRegionsChanged'],
  'module': '__init__',
  'new': '                excluded_regions=[]\n            )\n        )',
  'old': '                excluded_regions=[region.toDict() for region in self.state.excludedRegions]\n            )\n        )'},
 {'desc': 'file selection clears regions without notifying',
  'functions': ['__init__.ExcludeRegionPlugin.on_event'],
  'module': '__init__',
  'new': '            self.state.resetState(True)\n        elif (event == Events.SETTINGS_UPDATED)',
  'old': '            self.state.resetState(True)\n'
         '            self._notifyExcludedRegionsChanged()\n'
         '        elif (event == Events.SETTINGS_UPDATED)'},
 {'desc': 'delete does not notify',
  'functions': ['__init__.ExcludeRegionPlugin._handleDeleteExcludeRegion', '__init__.ExcludeRegionPlugin.on_api_command'],
  'module': '__init__',
  'new': '        self.state.deleteRegion(idToDelete)',
  'old': '        if (self.state.deleteRegion(idToDelete)):\n            self._notifyExcludedRegionsChanged()'},
 {'desc': 'deleteRegion removes the first region instead of the matching one',
  'functions': ['ExcludeRegionState.ExcludeRegionState.deleteRegion'],
  'module': 'ExcludeRegionState',
  'new': '                del self.excludedRegions[0]\n                return True',
  'old': '                del self.excludedRegions[index]\n                return True'},
 {'desc': 'anonymous users may change regions',
  'functions': ['__init__.ExcludeRegionPlugin.on_api_command'],
  'module': '__init__',
  'new': '        if False:',
  'old': '        if current_user.is_anonymous():'}]

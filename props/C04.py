from props.common import *
ID = "C04"
LEVEL = "proof"
TAGS = ("C04",)
CONTRACT_MODULES = ALL_CONTRACTS
FUNCTIONS = MOTION_FUNCS + HANDLER_FUNCS + AXIS_FUNCS[1:4] + [S + "resetState"] + [P + "on_event"]
SELFCHECK = [S + "processLinearMoves", "RetractionState.RetractionState._addCommands", H + "_handle_G92"]
ASSUMPTIONS = ["A1", "A2", "A3", "A4", "A5", "INDUCTION"]
EXTRA_ASSUMPTIONS = ["domain ghost of the property: absolute extrusion; matched retract/recover cycles (an E-only recovery never arrives while a recovery is still owed)"]
EXPLANATION = ("Invariant I-E (outside an episode the printer's E register equals the tracked extruder coordinate) is preserved by every "
               "handler; the G92 E emitted when leaving a region installs the tracked value; a forwarded extruding move pushes exactly "
               "E' - E of the file (the owed recovery pair in front of it nets to the recorded amount and leaves the register at the "
               "pre-move value); commands returned while a destination is excluded do not advance filament. " + STREAM_NOTE)
BREAKERS = [
    {"module": "ExcludeRegionState", "old": "            eAxis.current = priorE\n            returnCommands = self.recoverRetractionIfNeeded(cmd, False)\n            eAxis.current = extruderPosition",
     "new": "            returnCommands = self.recoverRetractionIfNeeded(cmd, False)", "desc": "owed recovery computed from the advanced E (original F6)",
     "functions": [S + "processLinearMoves"]},
    {"module": "ExcludeRegionState", "old": "            if (not returnCommands and not self.excluding):", "new": "            if (False):",
     "desc": "dropped retraction not compensated by G92 E (original F5)", "functions": [S + "processLinearMoves"]},
    {"module": "ExcludeRegionState", "old": "            \"G92 E{e}\".format(e=formatNumber(self.position.E_AXIS.nativeToLogical()))\n        )\n\n        # Compare the physical",
     "new": "            \"G92 E{e}\".format(e=formatNumber(self.lastPosition.E_AXIS.nativeToLogical()))\n        )\n\n        # Compare the physical",
     "desc": "exit re-sync uses the E value from before the episode", "functions": [S + "exitExcludedRegion", S + "processLinearMoves"]},
]

from props.common import *
from props.boundedrun import script
ID = "C02"
LEVEL = "proof"
TAGS = ("C02",)
CONTRACT_MODULES = ALL_CONTRACTS
FUNCTIONS = [S + "processLinearMoves", S + "isAnyPointExcluded", S + "isPointExcluded", S + "processExtendedGcode"] + HANDLER_FUNCS + [S + "resetState"] + [P + "on_event"]
ASSUMPTIONS = ["A1", "A2", "A3", "A4", "INDUCTION"]
BOUNDED = [script("retract_params.py")]
EXTRA_ASSUMPTIONS = ["GCODE_PARAMS_REGEX.sub is seen as the uninterpreted function 'parameter text of the command'; checked bounded (bounded/retract-params)",
                     "configured extended codes: processExtendedGcode returns None with an empty write set outside an episode (clause C02.passes-outside-episodes)"]
EXPLANATION = ("Invariant J (no episode open, nothing deferred, no recovery owed) is preserved by every handler when no destination "
               "is excluded, and under J the result is None or the one-element list holding the original command -- for both values "
               "of g90InfluencesExtruder (symbolic) and arbitrary region lists. " + STREAM_NOTE)
BREAKERS = [
    {"module": "ExcludeRegionState", "old": "        else:\n            returnCommands = [cmd]\n\n        if (isDebug):",
     "new": "        else:\n            returnCommands = [cmd, cmd]\n\n        if (isDebug):", "desc": "plain moves are forwarded twice",
     "functions": [S + "processLinearMoves"]},
    {"module": "GcodeHandlers", "old": "        self.state.setUnitMultiplier(INCH_TO_MM_FACTOR)", "new": "        self.state.setUnitMultiplier(INCH_TO_MM_FACTOR)\n        return self.state.ignoreGcodeCommand()",
     "desc": "G20 is swallowed", "functions": [H + "_handle_G20"]},
    {"module": "ExcludeRegionState", "old": "        elif (not self.excluding):\n            # something else (no move, no extrude, probably just setting feedrate)\n            return [cmd]",
     "new": "        elif (not self.excluding):\n            return []", "desc": "feed-rate-only G1 dropped outside regions", "functions": [S + "processLinearMoves"]},
]

from props.common import *
ID = "C08"
LEVEL = "proof"
TAGS = ("C08",)
CONTRACT_MODULES = ALL_CONTRACTS
FUNCTIONS = [S + "processLinearMoves", S + "isAnyPointExcluded", S + "isPointExcluded", S + "exitExcludedRegion"] + REGION_FUNCS + \
    AXIS_FUNCS[1:] + [H + "_handle_" + c for c in ("G0", "G2", "G20", "G21", "G28", "G90", "G91", "G92")]
SELFCHECK = [AX + "logicalToNative", AX + "nativeToLogical", AX + "setLogicalOffsetPosition", H + "_handle_G20", H + "_handle_G91"]
ASSUMPTIONS = ["A1", "A2", "A4", "INDUCTION"]
EXTRA_ASSUMPTIONS = ["'the same physical tool path in another encoding' is by definition the same trajectory of the reference printer; "
                     "the corollary (same decisions, same episodes, same end positions) is drawn from the four lemma groups below and is not itself mechanised"]
EXPLANATION = ("C08 as a corollary of frame-parametric contracts, all proved for SYMBOLIC frames (offset, home offset, unit in {1, 25.4}, "
               "absolute/relative): (T) tracking conformance -- the tracked native position follows the reference printer for every word "
               "in every frame; the unit/mode handlers change the frame and keep every native position; (D) the exclusion decision of "
               "processLinearMoves is a function of native points only (clause over natives_after/excluded); (X) the commands synthesised "
               "on exit move the printer to the tracked native position in every frame and mode (C03.resync), given that the remembered entry "
               "position is the printer's position when the episode began -- the coupling invariant processLinearMoves preserves "
               "(Inv-preserved); (Tr) translating a region "
               "and a point by the same vector does not change containsPoint. G92 X/Y/Z re-basing is a known finding (F10).")
BREAKERS = [
    {"module": "AxisPosition", "old": "        value *= self.unitMultiplier\n", "new": "        value = value * self.unitMultiplier if absoluteMode is None else value\n",
     "desc": "explicit-mode conversion forgets the unit", "functions": [AX + "logicalToNative"]},
    {"module": "GcodeHandlers", "old": "        self.state.setUnitMultiplier(INCH_TO_MM_FACTOR)", "new": "        self.state.position.setUnitMultiplier(INCH_TO_MM_FACTOR)",
     "desc": "G20 does not convert the feed rate unit", "functions": [H + "_handle_G20"]},
    {"module": "AxisPosition", "old": "        if (absoluteMode):\n            value += self.offset + self.homeOffset\n        else:\n            value += self.current\n\n        return value",
     "new": "        if (absoluteMode):\n            value += self.offset\n        else:\n            value += self.current\n\n        return value",
     "desc": "home offset ignored when converting to native", "functions": [AX + "logicalToNative", S + "processLinearMoves"]},
    {"module": "CircularRegion", "old": "        return self.r >= math.hypot(x - self.cx, y - self.cy)", "new": "        return self.r >= math.hypot(x - self.cx, y) - self.cy",
     "desc": "circle test not translation invariant", "functions": ["CircularRegion.CircularRegion.containsPoint"]},
]

ID = "C12"
LEVEL = "proof"
TAGS = ("C12",)
from props.common import ALL_CONTRACTS
CONTRACT_MODULES = ALL_CONTRACTS
P = "__init__.ExcludeRegionPlugin."
S = "ExcludeRegionState.ExcludeRegionState."
FUNCTIONS = [P + "on_api_command", P + "_handleAddExcludeRegion", P + "_handleDeleteExcludeRegion",
             P + "_handleUpdateExcludeRegion", S + "addRegion", S + "deleteRegion", S + "replaceRegion", S + "getRegion",
             "RectangularRegion.RectangularRegion.containsRegion", "CircularRegion.CircularRegion.containsRegion",
             "RectangularRegion.RectangularRegion.containsPoint", "CircularRegion.CircularRegion.containsPoint", "__init__.ExcludeRegionPlugin._handleSettingsUpdated"] + ["CommonMixin.CommonMixin.toDict"]
ASSUMPTIONS = ["A1", "A2", "A3", "A4", "INDUCTION"]
EXPLANATION = ("For an arbitrary (skolemised) point p and an arbitrary region list: while printing without the shrink "
               "permission, excluded(list, p) implies excluded(list', p) for every API request; refused requests leave "
               "the list unchanged. Monotonicity of an accepted update is the C17 containment lemma (callee contract of "
               "containsRegion instantiated at p) plus the whole-view post-condition of replaceRegion. The may-shrink flag consulted by the delete/update guards is the value of ITS settings key (_handleSettingsUpdated).")
BREAKERS = [{'desc': 'containment test swapped (new inside old)',
  'functions': ['ExcludeRegionState.ExcludeRegionState.replaceRegion'],
  'module': 'ExcludeRegionState',
  'new': 'if (mustContainOldRegion and not region.containsRegion(newRegion)):',
  'old': 'if (mustContainOldRegion and not newRegion.containsRegion(region)):'},
 {'desc': 'refused update still replaces the region',
  'functions': ['ExcludeRegionState.ExcludeRegionState.replaceRegion'],
  'module': 'ExcludeRegionState',
  'new': '                    self.excludedRegions[index] = newRegion\n'
         '                    raise ValueError("The updated region must completely contain the original area")\n'
         '\n',
  'old': '                    raise ValueError("The updated region must completely contain the original area")\n\n'},
 {'desc': 'update never demands containment',
  'functions': ['__init__.ExcludeRegionPlugin._handleUpdateExcludeRegion', '__init__.ExcludeRegionPlugin.on_api_command'],
  'module': '__init__',
  'new': '                False\n            )',
  'old': '                not self.mayShrinkRegionsWhilePrinting and self.isActivePrintJob\n            )'},
 {'desc': 'delete refused only when NOT printing',
  'functions': ['__init__.ExcludeRegionPlugin._handleDeleteExcludeRegion', '__init__.ExcludeRegionPlugin.on_api_command'],
  'module': '__init__',
  'new': '        if (not self.mayShrinkRegionsWhilePrinting and not self.isActivePrintJob):\n            return "Cannot delete',
  'old': '        if (not self.mayShrinkRegionsWhilePrinting and self.isActivePrintJob):\n            return "Cannot delete'}]

"""Native replay harness: run by /venv/bin/python (no z3).  Builds the pre-state of a refuted
obligation from the solver's model on the REAL classes, calls the REAL function and evaluates the
same contract clause on the real objects."""
from __future__ import print_function

import copy
import importlib
import json
import logging
import os
import sys
import traceback


class NView(object):
    def __init__(self, d):
        object.__setattr__(self, "_d", d)

    def __getattr__(self, name):
        return self._d[name]

    def has(self, name):
        return name in self._d


class NFrame(object):
    native = True

    def __init__(self, self_obj, args, ghost):
        self.self = self_obj
        self.args = args
        self.a = NView(args)
        self.g = ghost
        self.old = None
        self.result = None
        self.exc = None

    def unchanged(self):
        return describe(self.args) == describe(self.old.args)


class RandomModel(object):
    """Pseudo-random values for every symbol a pre-state builder may ask for (native probing)."""

    VALUES = [0.0, 1.0, -1.0, 0.5, 2.0, 3.0, -2.5, 10.0, 25.4, 7.25, 100.0, 0.001]

    def __init__(self, rnd):
        self.rnd = rnd
        self.cache = {}

    def get(self, name, dflt=None):
        if name.endswith("absoluteMode") and ".E." not in name:
            name = "xyz.absoluteMode"        # X/Y/Z share the positioning mode (type invariant)
        # make the common state/printer coupling invariant likely to hold: the ghost printer and the remembered
        # entry position coincide with the tracked position; flags are consistent
        alias = {"P.x": "pos.X.current", "P.y": "pos.Y.current", "P.z": "pos.Z.current", "P.e": "pos.E.current",
                 "lastPos.X.current": "pos.X.current", "lastPos.Y.current": "pos.Y.current", "lastPos.Z.current": "pos.Z.current",
                 "LR.extrusionAmount.isnone": "LR.firmwareRetract", "LR.feedRate.isnone": "LR.firmwareRetract"}
        name = alias.get(name, name)
        if name in ("excludeStartTime.isnone", "lastPosition.isnone"):
            return False
        if name == "exclusionEnabled" and self.cache.get("excluding"):
            return True
        if name == "excluding" and name not in self.cache and self.cache.get("exclusionEnabled") is False:
            self.cache[name] = False
        if name == "LR.extrusionAmount":
            return abs(self.get("LR.extrusionAmount.raw")) + 0.5
        if name not in self.cache:
            if name.endswith(".isnone") or name.endswith("absoluteMode") or "Enabled" in name or name in ("excluding", "clockwise"):
                self.cache[name] = self.rnd.random() < 0.5
            elif name.endswith("unitMultiplier") or name == "feedRateUnitMultiplier":
                self.cache[name] = None      # decided below, consistently
            else:
                self.cache[name] = self.rnd.choice(self.VALUES)
        v = self.cache[name]
        if v is None:
            if "unit" not in self.cache:
                self.cache["unit"] = self.rnd.choice([1.0, 25.4])
            v = self.cache["unit"]
        return v

    def items(self):
        return list(self.cache.items())


class NBuilder(object):
    native = True

    def __init__(self, model, choices, pkg):
        self.rnd = None
        if isinstance(model, dict) and "__random__" in model:
            import random
            self.rnd = random.Random(model["__random__"])
            model = RandomModel(self.rnd)
        self.model = model
        self.choices = list(choices)
        self.made_choices = []
        self.pkg = pkg

    def _num(self, name, dflt=0.0):
        v = self.model.get(name, dflt)
        if isinstance(v, bool):
            v = 1.0 if v else 0.0
        if isinstance(v, dict):
            if "num" in v:
                return int(v["num"]) / int(v["den"]) if int(v["den"]) != 1 else float(int(v["num"]))
            return float(v.get("float", dflt))
        return float(v)

    def real(self, name):
        return self._num(name)

    def int(self, name):
        return int(self._num(name))

    def bool(self, name):
        return bool(self.model.get(name, False))

    def string(self, name):
        v = self.model.get(name)
        if isinstance(v, dict) and "str" in v:
            import re as _re
            # z3 prints non-printable characters as \u{hex}
            return _re.sub(r"\\u\{([0-9a-fA-F]+)\}", lambda m: chr(int(m.group(1), 16)), v["str"])
        return "<%s>" % name

    def optreal(self, name):
        if self.model.get(name + ".isnone", False):
            return None
        return self._num(name)

    def choose(self, n, label="shape"):
        if self.choices:
            k = min(self.choices.pop(0), n - 1)
        elif self.rnd is not None:
            k = self.rnd.randrange(n)
        else:
            k = 0
        self.made_choices.append(k)
        return k

    def new(self, clsname, **fields):
        cls = find_class(self.pkg, clsname)
        if clsname == "GcodeParser":
            return cls()          # a real parser instance (its prior state is arbitrary for the contracts)
        o = object.__new__(cls)
        # attributes the class defines but the contract's pre-state does not model get their constructor defaults
        try:
            if clsname == "ExcludeRegionState":
                o.__dict__.update(cls(fields.get("_logger") or self.logger()).__dict__)
            elif clsname in ("Position", "AxisPosition", "StreamProcessorComm"):
                o.__dict__.update(cls().__dict__)
        except Exception:  # noqa
            pass
        for k, v in fields.items():
            setattr(o, k, v)
        return o

    def list(self, items):
        return list(items)

    def dict(self, d):
        return dict(d)

    def assume(self, cond):
        pass

    def _struct(self, name):
        """Structured model entry (dict) or, when probing with random values, None."""
        if self.rnd is not None:
            return None
        v = self.model.get(name)
        return v if isinstance(v, dict) else {}

    def native_regions(self, name):
        v = self._struct(name)
        if v is None:       # random probe: 0..2 random regions (recorded so that the engine self-check can rebuild them)
            spec = []
            for i in range(self.rnd.randrange(3)):
                if self.rnd.random() < 0.5:
                    a, b_, c, d = [self.rnd.choice([0.0, 5.0, 10.0, 20.0, 50.0]) for _ in range(4)]
                    spec.append({"rect": True, "id": {"str": "r%d" % i}, "p": [min(a, b_), min(c, d), max(a, b_), max(c, d)]})
                else:
                    spec.append({"rect": False, "id": {"str": "r%d" % i},
                                 "p": [self.rnd.choice([0.0, 5.0, 10.0, 20.0]) for _ in range(3)] + [0.0]})
            v = {"regionlist": spec}
            self.model.cache[name] = v
        out = []
        for e in v.get("regionlist", []):
            def num(x):
                if isinstance(x, dict):
                    if "num" in x:
                        return int(x["num"]) / int(x["den"])
                    return float(x.get("float", 0.0))
                return float(x)
            rid = e["id"]["str"] if isinstance(e["id"], dict) and "str" in e["id"] else str(e["id"])
            if e["rect"]:
                cls = find_class(self.pkg, "RectangularRegion")
                o = object.__new__(cls)
                o.x1, o.y1, o.x2, o.y2 = [num(x) for x in e["p"]]
            else:
                cls = find_class(self.pkg, "CircularRegion")
                o = object.__new__(cls)
                o.cx, o.cy, o.r = [num(x) for x in e["p"][:3]]
            o.id = rid
            out.append(o)
        return out

    def opaque(self, name):
        return None

    def optstr(self, name):
        if self.model.get(name + ".isnone", False):
            return None
        return self.string(name)

    def optint(self, name):
        if self.model.get(name + ".isnone", False):
            return None
        return int(self._num(name))

    def optobj(self, name, obj):
        return None if self.model.get(name + ".isnone", False) else obj

    def lazy(self, name, alternatives):
        k = int(self.model.get("lazy." + name, 0) or 0)
        return alternatives[min(k, len(alternatives) - 1)]()

    def script(self, name):
        n = max(1, int(self._num(name + ".len", 1)))
        return ["M117 %s line %d" % (name, i) for i in range(min(n, 3))]

    def realseq(self, name, even=False, min_len=0):
        v = self._struct(name)
        if v is None:
            n = max(min_len, self.rnd.randrange(0, 6))
            if even and n % 2:
                n += 1
            v = {"realseq": [self.rnd.choice(RandomModel.VALUES) for _ in range(n)]}
            self.model.cache[name] = v
        out = []
        for x in v.get("realseq", []):
            out.append(float(int(x["num"]) / int(x["den"])) if isinstance(x, dict) and "num" in x else
                       float(x.get("float", 0.0)) if isinstance(x, dict) else float(x))
        while len(out) < min_len:
            out.append(0.0)
        if even and len(out) % 2:
            out.append(0.0)
        # a list, never a tuple: contracts use "tuple" for the fixed shapes (one or two explicit pairs) and "sequence"
        # for this one, and state different preconditions for them (e.g. arc samples are absolute coordinates)
        return list(out)

    def opaque_regex(self, name):
        builder = self
        matches = [v for k, v in sorted(self.model.items()) if k.startswith("re.match")]

        others = dict((kind, [v for k, v in sorted(self.model.items()) if k.startswith("re." + kind)])
                      for kind in ("search", "fullmatch"))
        rnd = self.rnd

        class _Rx(object):
            pattern = "<configured pattern %s>" % name

            def __init__(self_inner):
                self_inner.log = []          # (method, text, outcome) of every call, for the contract clauses

            def match(self_inner, s):
                v = matches.pop(0) if matches else False
                self_inner.log.append(("match", s, bool(v)))
                return object() if v else None

            def _other(self_inner, kind, s):
                vals = others[kind]
                v = vals.pop(0) if vals else (rnd.random() < 0.5 if rnd is not None else True)
                self_inner.log.append((kind, s, bool(v)))
                return object() if v else None

            def search(self_inner, s):
                return self_inner._other("search", s)

            def fullmatch(self_inner, s):
                return self_inner._other("fullmatch", s)
        return _Rx()

    def spy(self, ghost, obj, method):
        import inspect
        real = getattr(obj, method)
        log = ghost.setdefault("delegated", [])
        sig = inspect.signature(real)

        def wrapper(*a, **kw):
            ba = sig.bind(*a, **kw)
            ba.apply_defaults()
            res = real(*a, **kw)
            log.append((method, dict(ba.arguments), res))
            return res
        setattr(obj, method, wrapper)

    def gcode_command(self, name, code="G1"):
        """Build a real command string whose parameter words realise the model's items."""
        v = self._struct(name + ".items")
        if v is None:
            v = {"items": [{"code": ord(self.rnd.choice("XYZEFIJRSPL")), "none": self.rnd.random() < 0.15,
                            "value": self.rnd.choice(RandomModel.VALUES)} for _ in range(self.rnd.randrange(0, 6))]}
            self.model.cache[name + ".items"] = v
        words = []
        for it in v.get("items", []):
            c = it.get("code", 0)
            if not (65 <= c <= 90):
                continue
            if it.get("none"):
                words.append(chr(c))
            else:
                x = it.get("value")
                if isinstance(x, dict):
                    x = int(x["num"]) / int(x["den"]) if "num" in x else float(x.get("float", 0.0))
                words.append("%s%r" % (chr(c), float(x)))
        self.last_code = code
        text = (code + " " + " ".join(words)).strip()
        if self.rnd is None:
            mv = self.model.get(name)
            if isinstance(mv, dict) and "str" in mv:
                # the solver's value of the command text: wherever the model stores that same text (e.g. as an entry of
                # the deferred-command table) the real command built here stands for it
                self.text_alias = getattr(self, "text_alias", {})
                self.text_alias[mv["str"]] = text
        return text

    def ordmap(self, name):
        from collections import OrderedDict
        d = OrderedDict()
        if self.rnd is not None:       # random probe: mostly empty tables (and empty outside an episode: invariant I-excl)
            empty = self.rnd.random() < 0.75 or not self.model.cache.get("excluding", True)
            self.model.cache[name + ".len"] = 0.0 if empty else float(self.rnd.randrange(1, 3))
        tab = self._struct(name + ".table") if self.rnd is None else None
        if tab and tab.get("ordmap") is not None:
            # counter-model / candidate: the table the solver chose
            def txt(x):
                x = x.get("str", "") if isinstance(x, dict) else x
                return self._unescape(x) if hasattr(self, "_unescape") else x

            def num(x):
                if isinstance(x, dict) and "num" in x:
                    return float(int(x["num"])) / float(int(x["den"]))
                return float(x.get("float", 0.0)) if isinstance(x, dict) else float(x)
            for ent in tab["ordmap"]:
                if ent.get("is_map"):
                    d[txt(ent["key"])] = OrderedDict((l, None if v is None else num(v)) for l, v in ent.get("args", {}).items())
                else:
                    d[txt(ent["key"])] = txt(ent["sval"])
            return d
        for i in range(min(3, max(0, int(self._num(name + ".len", 0))))):
            d["M%d" % (900 + i)] = "M%d S%d" % (900 + i, i)
        return d

    def set_current_user(self, anonymous):
        import octoprint_excluderegion as m

        class _U(object):
            def is_anonymous(self_inner):
                return bool(anonymous)
        m.current_user = _U()

    def gcode_table(self):
        isnone = self.model.get("entry.isnone", False)
        mode = self.model.get("entry.mode")
        mode = mode.get("str") if isinstance(mode, dict) else (mode if isinstance(mode, str) else "merge")
        if self.rnd is not None:
            isnone = self.rnd.random() < 0.3
            mode = self.rnd.choice(["exclude", "first", "last", "merge"])
        cls = find_class(self.pkg, "ExcludedGcode")
        table = {}

        class _T(dict):
            def get(self_inner, k, dflt=None):
                if isnone:
                    return dflt
                return cls(k, mode, "configured")
        return _T()

    def settings(self, values, is_global=False):
        vals = dict(values)

        class _Settings(object):
            def get(self_inner, path, **kw):
                return vals[".".join(path)]
            get_boolean = getBoolean = get_int = get_float = get
        st = _Settings()
        if is_global:
            import importlib
            m = importlib.import_module(self.pkg)
            m.settings = lambda: st
        return st

    def plugin_manager(self):
        return NPluginManager()

    def comm(self, streaming):
        return NComm(streaming)

    def logger(self):
        lg = logging.getLogger("verif.replay")
        lg.addHandler(logging.NullHandler())
        lg.propagate = False
        lg.setLevel(logging.CRITICAL + 1)
        return lg


class NPluginManager(object):
    def __init__(self):
        self.log = []

    def send_plugin_message(self, ident, msg):
        self.log.append((ident, msg))


class NComm(object):
    def __init__(self, streaming):
        self.streaming = streaming
        self.sent = []

    def isStreaming(self):
        return self.streaming

    def sendCommand(self, command, **kwargs):
        self.sent.append(command)


def find_class(pkg, clsname):
    for modname in ("AxisPosition", "Position", "RectangularRegion", "CircularRegion", "RetractionState",
                    "ExcludeRegionState", "GcodeHandlers", "GcodeParser", "AtCommandAction",
                    "ExcludedGcode", "StreamProcessor"):
        try:
            m = importlib.import_module(pkg + "." + modname)
        except Exception:
            continue
        if hasattr(m, clsname):
            return getattr(m, clsname)
    m = importlib.import_module(pkg)
    return getattr(m, clsname)


def resolve_function(pkg, qualname):
    parts = qualname.split(".")
    modname = pkg if parts[0] == "__init__" else pkg + "." + parts[0]
    m = importlib.import_module(modname)
    if len(parts) == 2:
        return None, getattr(m, parts[1]), "function"
    cls = getattr(m, parts[1])
    attr = cls.__dict__[parts[2]]
    if len(parts) == 4 and parts[3] == "setter":
        return cls, attr.fset, "method"
    if isinstance(attr, property):
        return cls, attr.fget, "method"
    if isinstance(attr, staticmethod):
        return cls, attr.__func__, "static"
    return cls, attr, "method"


def install_case_monitors(pkg, registry, active, hits):
    """Known findings (active cases of known_findings.txt) are defects of the tree that are already recorded.  While the
    real code runs, note every call of a function that enters one of those recorded cases (guard evaluated on the
    callee's own pre-state): a clause that then fails further up the call chain is a consequence of the recorded finding,
    not a new violation, and is not reported as reproduced."""
    import inspect
    by_fn = {}
    for oname, labels in (active or {}).items():
        try:
            if "/requires:" in oname:
                callee, rest = oname.split("/requires:", 1)
                reqname, caller = rest.split("@", 1)
                cases = registry.get(caller).call_cases.get((callee, reqname), {})
                q = caller
            else:
                q, clname = oname.split("/", 1)
                con = registry.get(q)
                cases = {}
                for cl in list(con.ensures_) + list(getattr(con, "caller_view_", [])):
                    if cl.name == clname:
                        cases.update(cl.cases)
        except Exception:
            continue
        for lb in labels:
            if lb in cases:
                by_fn.setdefault(q, []).append((lb, cases[lb]))
    for q, guards in by_fn.items():
        try:
            cls, fn, kind = resolve_function(pkg, q)
        except Exception:
            continue
        if cls is None or q.endswith(".setter"):
            continue
        name = q.split(".")[2]

        def make(fn, guards, q, kind):
            sig = inspect.signature(fn)

            def wrapper(*a, **kw):
                try:
                    bound = sig.bind(*a, **kw)
                    bound.apply_defaults()
                    locs = dict(bound.arguments)
                    fr = NFrame(locs.get("self"), locs, {})
                    fr.old = fr
                    for lb, g in guards:
                        if bool(g(fr)):
                            hits.append("%s case=%s" % (q, lb))
                except Exception as e:  # noqa -- a guard that cannot be evaluated natively taints conservatively
                    hits.append("%s guard not evaluable: %r" % (q, e))
                return fn(*a, **kw)
            wrapper.__wrapped__ = fn
            return staticmethod(wrapper) if kind == "static" else wrapper
        try:
            setattr(cls, name, make(fn, guards, q, kind))
        except Exception:
            pass


def replay(req):
    repo = req["repo"]
    sys.path.insert(0, repo)
    sys.path.insert(0, req["verif"])
    pkg = "octoprint_excluderegion"
    from pyvc.contracts import REGISTRY
    for cm in req["contract_modules"]:
        importlib.import_module(cm)
    con = REGISTRY.get(req["function"])
    b = NBuilder(req.get("model") or {}, req.get("choices") or [], pkg)
    pre = con.pre_builder(b)
    self_obj = pre.get("self")
    args = dict(pre.get("args", {}))
    alias = getattr(b, "text_alias", None)
    if alias:
        from collections import OrderedDict as _OD
        for holder in (self_obj, getattr(self_obj, "state", None)):
            tab = getattr(holder, "pendingCommands", None)
            if isinstance(tab, _OD):
                for k_, v_ in list(tab.items()):
                    if isinstance(v_, str) and v_ in alias:
                        tab[k_] = alias[v_]
    ghost = pre.get("ghost", {})
    locs = dict(args)
    if self_obj is not None:
        locs["self"] = self_obj
    f = NFrame(self_obj, locs, ghost)
    out = {"function": req["function"], "obligation": req["obligation"], "inputs": describe(locs), "ghost": describe(ghost)}
    if b.rnd is not None:
        out["assignment"] = {"values": dict(b.model.items()), "choices": list(b.made_choices),
                             "seed": (req.get("model") or {}).get("__random__")}
    pre_ok = True
    for cl in con.requires_:
        try:
            ok = bool(cl.fn(f))
        except Exception as e:  # noqa
            ok = False
            out.setdefault("pre_errors", []).append("%s: %r" % (cl.name, e))
        if not ok:
            pre_ok = False
            out.setdefault("pre_false", []).append(cl.name)
    out["pre_holds_natively"] = pre_ok
    old = NFrame(None, None, None)
    memo = {}
    old.self = copy.deepcopy(self_obj, memo)
    old.args = dict((k, copy.deepcopy(v, memo)) for k, v in locs.items())
    old.a = NView(old.args)
    old.g = copy.deepcopy(ghost, memo)
    f.old = old
    case_hits = []
    install_case_monitors(pkg, REGISTRY, req.get("active_cases"), case_hits)
    cls, fn, kind = resolve_function(pkg, req["function"])
    if kind != "function" and cls is not None and not req["function"].endswith(".setter"):
        # pick up the monitored version of the function itself, if any
        attr = cls.__dict__.get(req["function"].split(".")[2])
        if attr is not None and not isinstance(attr, property):
            fn = attr.__func__ if isinstance(attr, staticmethod) else attr
    import inspect
    sig = inspect.signature(getattr(fn, "__wrapped__", fn))
    pos = []
    kw = {}
    for name, p in sig.parameters.items():
        if name == "self":
            pos.append(self_obj)
        elif p.kind == p.VAR_POSITIONAL:
            pos.extend(args.get(name, ()))
        elif p.kind == p.VAR_KEYWORD:
            kw.update(args.get(name, {}))
        elif name in args:
            pos.append(args[name])
        else:
            break
    try:
        f.result = fn(*pos, **kw)
        out["result"] = describe(f.result)
    except Exception as e:  # the real code raised
        f.exc = type(e).__name__
        out["raised"] = "%s: %s" % (type(e).__name__, e)
        out["raise_declared"] = any(t == f.exc for (t, w) in con.raises_) or con.native_incomplete
        out["traceback"] = traceback.format_exc().splitlines()[-6:]
    out["state_after"] = describe(locs)
    out["ghost_after"] = describe(ghost)
    # evaluate the obligation
    name = req["obligation"].split("/", 1)[1] if "/" in req["obligation"] else req["obligation"]
    reproduced = None
    detail = None
    if name.startswith("no-ZeroDivisionError") or name.startswith("no-None") or name.startswith("sqrt-domain") \
            or name.startswith("index-in-range") or name.startswith("assert@") or name.startswith("no-raise:") \
            or name.startswith("no-raise"):
        reproduced = f.exc is not None
        detail = "implicit obligation: real code raised %s" % f.exc if reproduced else "no exception natively"
    elif name.startswith("must-raise:"):
        reproduced = f.exc is None
        detail = "expected %s, real code returned normally" % name.split(":", 1)[1]
    else:
        if con.ghost_exit is not None:
            try:
                con.ghost_exit(f)
            except Exception as e:  # noqa
                out["ghost_error"] = repr(e)
        base = name.split("[")[0]
        suffix = name[len(base):]
        cands = [c for c in con.ensures_ if c.name == base]
        probe_all = False
        if base == "*" and f.exc is not None and not out.get("raise_declared") and not con.native_incomplete:
            # the function is outside the executor's subset and the REAL code raised an exception its contract does not
            # declare, from a pre-state satisfying the precondition: the implicit "never raises" obligation fails
            reproduced = True
            detail = "implicit obligation: real code raised %s" % out.get("raised")
            out["failed_clause"] = "no-raise:%s" % f.exc
            cands = []
            base = "<raised>"
        if not cands and base == "*":
            cands = list(con.ensures_)          # function outside the executor's subset: probe every post clause
            suffix = ""
            probe_all = True
        active = req.get("active_cases") or {}
        for cl in cands:
            try:
                val = bool(cl.fn(f))
                if probe_all and not val:
                    # a recorded case of this very clause excuses the failure
                    oldf0 = NFrame(f.old.self, f.old.args, f.old.g)
                    oldf0.old = f.old
                    for lb in active.get("%s/%s" % (req["function"], cl.name), []):
                        if lb in cl.cases and bool(cl.cases[lb](oldf0)):
                            val = True
                # known-finding split: "[outside:a,b]" = clause or guard_a or guard_b ; "[inside:a]" = guard_a => clause
                if suffix.startswith("[outside:") or suffix.startswith("[inside:"):
                    labels = suffix[suffix.index(":") + 1:-1].split(",")
                    guards = []
                    oldf = NFrame(f.old.self, f.old.args, f.old.g)
                    oldf.old = f.old
                    for lb in labels:
                        if lb in cl.cases:
                            guards.append(bool(cl.cases[lb](oldf)))
                    val = (val or any(guards)) if suffix.startswith("[outside:") else ((not all(guards)) or val)
                if not val:
                    reproduced = True
                    detail = "clause %s evaluates to False on the real objects" % cl.name
                    out["failed_clause"] = cl.name
                    break
                reproduced = False
                detail = "clause %s evaluates to True on the real objects" % cl.name
            except Exception as e:  # noqa
                detail = "clause raised natively: %r" % (e,)
                out["clause_traceback"] = traceback.format_exc().splitlines()[-6:]
    if case_hits:
        out["known_finding_cases_entered"] = sorted(set(case_hits))
        if reproduced and "[inside:" not in name:
            # the run went through a recorded known-finding case: a failing clause here is its consequence
            reproduced = False
            detail = "not counted: the run entered a recorded known-finding case (%s); %s" % (
                ", ".join(sorted(set(case_hits))[:3]), detail)
            out.pop("failed_clause", None)
    out["reproduced"] = reproduced
    out["detail"] = detail
    return out


def describe(v, depth=0):
    if depth > 6:
        return "..."
    if v is None or isinstance(v, (bool, int, float, str)):
        return v
    if isinstance(v, (list, tuple)):
        return [describe(x, depth + 1) for x in v]
    if isinstance(v, dict):
        return dict((str(k), describe(x, depth + 1)) for k, x in v.items())
    if isinstance(v, logging.Logger):
        return "<logger>"
    d = getattr(v, "__dict__", None)
    if d is not None:
        r = {"__class__": type(v).__name__}
        for k, x in d.items():
            r[k] = describe(x, depth + 1)
        return r
    return repr(v)


def main():
    req = json.load(open(sys.argv[1]))
    try:
        out = replay(req)
    except Exception:
        out = {"reproduced": None, "detail": "replay harness error", "traceback": traceback.format_exc().splitlines()[-12:]}
    json.dump(out, sys.stdout, indent=1, default=repr)


if __name__ == "__main__":
    main()

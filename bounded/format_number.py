"""C07 bounded stand-in for GcodeParser.formatNumber (rests on CPython's float repr and decimal) and for
GcodeParser.buildCommand on merged argument maps.

formatNumber space: every power of ten from 1e-320 to 1e308 and its two neighbouring doubles, both signs; 0.0; the same
divided by 25.4; 10^5 (quick) / 10^6 (thorough) seeded random finite doubles (random bit patterns) and random 'gcode-like'
values (round(x, k)).  Clauses: no exponent, plain decimal syntax, exact value preserved, firmware-style reading gives the
value.  buildCommand space: seeded random argument maps over 1..5 letters."""
import math
import random
import re
import struct
import sys
from decimal import Decimal
from fractions import Fraction

from common import setup, emit

tier, seed, repo = sys.argv[1], int(sys.argv[2]), sys.argv[3]
setup(repo)
from octoprint_excluderegion.GcodeParser import GcodeParser, formatNumber  # noqa: E402
from spec import rs274  # noqa: E402

PLAIN = re.compile(r"^-?[0-9]+(\.[0-9]+)?$")
rnd = random.Random(seed)
violations, cases, distinct = [], 0, set()


def neighbours(x):
    out = [x]
    if hasattr(math, "nextafter"):
        out += [math.nextafter(x, math.inf), math.nextafter(x, -math.inf)]
    return out


def check(v):
    global cases
    cases += 1
    s = formatNumber(v)
    distinct.add(s)
    why = None
    if "e" in s.lower():
        why = "exponent notation"
    elif not PLAIN.match(s):
        why = "not plain decimal syntax"
    elif Decimal(s) != Decimal(repr(v)):
        why = "value changed"
    else:
        ws = rs274.words("E" + s)
        if len(ws) != 1 or ws[0][0] != "E" or ws[0][1] != Fraction(Decimal(s)):
            why = "firmware-style reading gives %r" % (ws,)
    if why:
        violations.append({"clause": "C07.formatNumber", "input": repr(v), "detail": "%s: %r" % (why, s)})


vals = [0.0, -0.0]
for e in range(-320, 309):
    try:
        x = float("1e%d" % e)
    except OverflowError:
        continue
    for y in neighbours(x):
        vals += [y, -y, y / 25.4, y * 25.4 if y < 1e300 else y]
for v in vals:
    if math.isfinite(v):
        check(v)
N = 100000 if tier == "quick" else 1000000
for _ in range(N):
    bits = rnd.getrandbits(64)
    v = struct.unpack("<d", struct.pack("<Q", bits))[0]
    if math.isfinite(v):
        check(v)
for _ in range(N // 10):
    check(round(rnd.uniform(-500, 500), rnd.randrange(0, 8)))
    check(rnd.uniform(-1, 1) * 10 ** rnd.randrange(-12, 3))
# buildCommand on merged argument maps
p = GcodeParser()
for _ in range(N // 20):
    letters = rnd.sample("XYZEFSPTIJR", rnd.randrange(1, 6))
    args = dict((l, (None if rnd.random() < 0.1 else rnd.choice([rnd.uniform(-1e-6, 1e-6), round(rnd.uniform(-300, 300), 3), float(rnd.randrange(0, 5000)), 0.0, 0, -0.0, 1e-7, 123456789.0]))) for l in letters)
    cmd = p.buildCommand("M204", **args)
    cases += 1
    distinct.add(cmd)
    code, params = rs274.command_of(rs274.words(cmd))
    got = dict(params)
    ok = code == "M204" and rs274.distinct_letters(params) and set(got) == set(args) and "e" not in cmd.lower().replace("e", "", cmd.upper().count("E")) 
    for l in args:
        if args[l] is None:
            ok = ok and got.get(l, 0) is None
        else:
            ok = ok and got.get(l) is not None and Fraction(Decimal(repr(args[l]))) == got[l]
    if not ok:
        violations.append({"clause": "C07.buildCommand", "input": repr(args), "detail": cmd})
emit({"name": "bounded/format-number", "bounded": True,
      "bound": "powers of ten 1e-320..1e308 +-1 ulp (x1, /25.4, x25.4, both signs), %d random bit-pattern doubles, %d gcode-like values, %d random argument maps"
               % (N, N // 5, N // 20),
      "cases": cases, "distinct_nontrivial": len(distinct), "exhaustive": False,
      "rule": "a case is one float (or one argument map); distinct by rendered text",
      "samples": ["1e-05 -> " + formatNumber(1e-05), "1e+16 -> " + formatNumber(1e16), "0.1 -> " + formatNumber(0.1)],
      "violations": violations[:20], "n_violations": len(violations)})

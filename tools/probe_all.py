#!/venv/bin/python
"""Self-check of the native replay harness on the UNCHANGED tree: every contract's natively evaluable post-clauses are
probed with pseudo-random pre-states (the same procedure the checks use for functions outside the executor's subset and
for undecided obligations).  On a tree where all obligations are discharged, a probe that satisfies the precondition
and still fails a clause is either a defect the proof missed (it cannot be, for a discharged clause) or an inconsistency
between the native builder / native clause branch and the symbolic one -- a false-alarm risk.  Usage:
    tools/probe_all.py [repo] [seeds-per-function] [function-substring]"""
import json
import os
import subprocess
import sys

VERIF = os.path.dirname(os.path.dirname(os.path.abspath(__file__)))
sys.path.insert(0, VERIF)


def main():
    repo = sys.argv[1] if len(sys.argv) > 1 else "/repo"
    n = int(sys.argv[2]) if len(sys.argv) > 2 else 40
    only = sys.argv[3] if len(sys.argv) > 3 else ""
    if os.environ.get("_PROBE_CHILD"):
        return child(repo, n, os.environ["_PROBE_CHILD"])
    import importlib
    from props.common import ALL_CONTRACTS
    sys.path.insert(0, repo)
    for m in ALL_CONTRACTS:
        importlib.import_module(m)
    from pyvc.contracts import REGISTRY
    fns = [q for q, c in sorted(REGISTRY.contracts.items()) if getattr(c, "pre_builder", None) is not None and only in q]
    from concurrent.futures import ThreadPoolExecutor

    def run(q):
        p = subprocess.run([sys.executable, os.path.abspath(__file__), repo, str(n)], capture_output=True, text=True,
                           env=dict(os.environ, _PROBE_CHILD=q, PYTHONWARNINGS="ignore", PYTHONPATH=VERIF), timeout=3600)
        lines = [l for l in p.stdout.splitlines() if l.startswith("{")]
        return q, (json.loads(lines[-1]) if lines else {"error": p.stderr[-600:]})
    bad = 0
    with ThreadPoolExecutor(12) as ex:
        for q, r in ex.map(run, fns):
            hits = r.get("hits", [])
            print("%-75s probes=%s pre_ok=%s hits=%d %s" % (q, r.get("probes"), r.get("pre_ok"), len(hits), r.get("error", "")[:300]))
            for h in hits[:3]:
                print("     seed=%s clause=%s %s" % (h["seed"], h["clause"], h["detail"][:160]))
            bad += len(hits)
    print("TOTAL hits:", bad)
    return 1 if bad else 0


def child(repo, n, q):
    from props.common import ALL_CONTRACTS
    from pyvc import native
    import random
    from pyvc.driver import load_known_findings
    active = {}
    for fd in load_known_findings():
        active.setdefault(fd["obligation"], [])
        if fd["case"] not in active[fd["obligation"]]:
            active[fd["obligation"]].append(fd["case"])
    rnd = random.Random(12345)
    hits, pre_ok, errs = [], 0, 0
    for i in range(n):
        seed = rnd.randrange(1 << 30)
        # each probe in a fresh interpreter state is not needed for correctness of the real classes, but monitors wrap
        # methods cumulatively: use a subprocess-free approach by reloading nothing and tolerating double wrapping
        req = {"repo": repo, "verif": VERIF, "function": q, "obligation": q + "/*", "model": {"__random__": seed}, "choices": [],
               "contract_modules": ALL_CONTRACTS, "active_cases": active}
        try:
            out = native.replay(req)
        except Exception as e:  # noqa
            errs += 1
            continue
        if out.get("pre_holds_natively"):
            pre_ok += 1
            if out.get("reproduced") is True and out.get("failed_clause"):
                hits.append({"seed": seed, "clause": out["failed_clause"], "detail": str(out.get("detail")) + " raised=" + str(out.get("raised"))})
            elif out.get("raised") and not out.get("raise_declared"):
                hits.append({"seed": seed, "clause": "no-raise", "detail": "raised=" + str(out.get("raised"))})
    print(json.dumps({"probes": n, "pre_ok": pre_ok, "errors": errs, "hits": hits}))
    return 0


if __name__ == "__main__":
    sys.exit(main())

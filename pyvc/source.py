"""Loads the *current working tree* of the repository as ASTs (no import of the package).

Everything the verifier executes comes from here: it is re-read on every run, so the
verified text is the code that runs.  See DESIGN.md 2.1 for what is dropped.
"""
import ast
import hashlib
import os

REPO = os.environ.get("VERIF_REPO", "/repo")
PKG = "octoprint_excluderegion"


class FuncInfo(object):
    def __init__(self, module, cls, node, kind):
        self.module = module
        self.cls = cls
        self.node = node
        self.name = node.name
        self.kind = kind  # method | static | prop_get | prop_set | function
        self.is_generator = any(isinstance(n, (ast.Yield, ast.YieldFrom)) for n in ast.walk(node))

    @property
    def qualname(self):
        q = self.module.short
        if self.cls is not None:
            q += "." + self.cls.name
        q += "." + self.name
        if self.kind == "prop_set":
            q += ".setter"
        return q

    @property
    def lines(self):
        return (self.node.lineno, self.node.end_lineno)

    def __repr__(self):
        return "<Func %s>" % self.qualname


class ClassInfo(object):
    def __init__(self, module, node):
        self.module = module
        self.node = node
        self.name = node.name
        self.base_names = []
        for b in node.bases:
            if isinstance(b, ast.Name):
                self.base_names.append(b.id)
            elif isinstance(b, ast.Attribute):
                self.base_names.append(b.attr)
        self.methods = {}
        self.prop_get = {}
        self.prop_set = {}
        self.class_attrs = {}
        for st in node.body:
            if isinstance(st, ast.FunctionDef):
                kind = "method"
                for d in st.decorator_list:
                    if isinstance(d, ast.Name) and d.id == "staticmethod":
                        kind = "static"
                    elif isinstance(d, ast.Name) and d.id == "property":
                        kind = "prop_get"
                    elif isinstance(d, ast.Attribute) and d.attr == "setter":
                        kind = "prop_set"
                fi = FuncInfo(module, self, st, kind)
                if kind == "prop_get":
                    self.prop_get[st.name] = fi
                elif kind == "prop_set":
                    self.prop_set[st.name] = fi
                else:
                    self.methods[st.name] = fi

    def mro(self, program):
        out = [self]
        for b in self.base_names:
            ci = program.find_class(b)
            if ci is not None:
                for c in ci.mro(program):
                    if c not in out:
                        out.append(c)
        return out

    def __repr__(self):
        return "<Class %s.%s>" % (self.module.short, self.name)


class ModuleInfo(object):
    def __init__(self, short, path, edits=None):
        self.short = short
        self.path = path
        with open(path, "rb") as fh:
            data = fh.read()
        self.sha256 = hashlib.sha256(data).hexdigest()
        self.text = data.decode("utf-8").replace("\r\n", "\n")   # the repository uses CRLF line endings
        for (mod, old, new) in (edits or []):
            if mod == short:
                if self.text.count(old) != 1:
                    raise ValueError("seeded edit for %s does not apply exactly once: %r" % (short, old))
                self.text = self.text.replace(old, new)
        self.tree = ast.parse(self.text, filename=path)
        self.classes = {}
        self.functions = {}
        for st in self.tree.body:
            if isinstance(st, ast.ClassDef):
                self.classes[st.name] = ClassInfo(self, st)
            elif isinstance(st, ast.FunctionDef):
                self.functions[st.name] = FuncInfo(self, None, st, "function")
        self.globals = None  # filled lazily by the interpreter


class Program(object):
    def __init__(self, repo=None, edits=None):
        self.repo = repo or os.environ.get("VERIF_REPO", REPO)
        self.pkgdir = os.path.join(self.repo, PKG)
        self.modules = {}
        for fn in sorted(os.listdir(self.pkgdir)):
            if fn.endswith(".py"):
                short = fn[:-3]
                if short == "__init__":
                    short = "__init__"
                self.modules[short] = ModuleInfo(short, os.path.join(self.pkgdir, fn), edits)

    def find_class(self, name):
        for m in self.modules.values():
            if name in m.classes:
                return m.classes[name]
        return None

    def func(self, qualname):
        """'Module.Class.method' | 'Module.Class.prop.setter' | 'Module.function'."""
        parts = qualname.split(".")
        mod = self.modules[parts[0]]
        if len(parts) == 2:
            return mod.functions[parts[1]]
        cls = mod.classes[parts[1]]
        if len(parts) == 4 and parts[3] == "setter":
            return cls.prop_set[parts[2]]
        if parts[2] in cls.methods:
            return cls.methods[parts[2]]
        return cls.prop_get[parts[2]]

    def hashes(self):
        return {m.short: m.sha256 for m in self.modules.values()}

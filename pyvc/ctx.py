"""Path context and path-exploration engine (re-execution under decision scripts)."""
import os
import time

from . import limits

import z3

from .values import PathDead, NotPure, as_const_bool, Unsupported

BRANCH_TIMEOUT_MS = int(__import__("os").environ.get("VERIF_BRANCH_TIMEOUT_MS", "700"))


class Obligation(object):
    __slots__ = ("name", "pc", "goal", "meta", "path", "kind", "symbols", "choices")

    def __init__(self, name, pc, goal, meta=None, path=None, kind="post"):
        self.name = name
        self.pc = pc
        self.goal = goal
        self.meta = meta or {}
        self.path = path
        self.kind = kind


class Stats(object):
    def __init__(self):
        self.branch_queries = 0
        self.branch_time = 0.0
        self.paths = 0
        self.dead_paths = 0


class FrontierReached(Exception):
    pass


class PathCtx(object):
    def __init__(self, engine, script):
        self.engine = engine
        self.script = list(script)
        self.pos = 0
        self.pc = []
        self.obligations = []
        self.covers = []
        self.writes = []          # (container, key) in program order
        self.counter = {}
        self.pure = 0
        self.assumed = set()      # names of assumed library contracts used on this path
        self.executed = set()     # qualnames executed (inlined or top)
        self.used_contracts = set()
        self.ghost = {}
        self.symbols = {}         # name -> z3 const (inputs, for models / replay)
        self.notes = []
        self.fn_stack = []

    # ---- naming -------------------------------------------------------
    def fresh_name(self, base):
        n = self.counter.get(base, 0)
        self.counter[base] = n + 1
        return base if n == 0 else "%s!%d" % (base, n)

    def real(self, base, record=True):
        c = z3.Real(self.fresh_name(base))
        if record:
            self.symbols[str(c)] = c
        return c

    def int(self, base, record=True):
        c = z3.Int(self.fresh_name(base))
        if record:
            self.symbols[str(c)] = c
        return c

    def bool(self, base, record=True):
        c = z3.Bool(self.fresh_name(base))
        if record:
            self.symbols[str(c)] = c
        return c

    def string(self, base, record=True):
        c = z3.String(self.fresh_name(base))
        if record:
            self.symbols[str(c)] = c
        return c

    # ---- path condition -------------------------------------------------
    def assume(self, cond, definitional=False):
        if isinstance(cond, bool):
            if not cond:
                raise PathDead()
            return
        if self.pure and not definitional:
            raise NotPure()
        self.pc.append(cond)

    def _sat(self, extra):
        s = z3.Solver()
        for c in self.pc:
            s.add(c)
        s.add(extra)
        t0 = time.time()
        r = limits.check(s, BRANCH_TIMEOUT_MS)      # CPU budget (load-independent), see pyvc/limits.py
        if os.environ.get("VERIF_RLSTATS"):
            try:
                st = s.statistics()
                rl = [st.get_key_value(k) for k in st.keys() if k == "rlimit count"]
                with open(os.environ["VERIF_RLSTATS"], "a") as fh:
                    fh.write("branch %.4f %d %s\n" % (time.time() - t0, rl[0] if rl else 0, r))
            except Exception:
                pass
        self.engine.stats.branch_queries += 1
        self.engine.stats.branch_time += time.time() - t0
        return r != z3.unsat  # unknown counts as feasible

    def branch(self, cond):
        """Decide a symbolic condition; forks the exploration."""
        c = as_const_bool(cond)
        if c is not None:
            return c
        if self.pure:
            raise NotPure()
        if self.pos < len(self.script):
            d = self.script[self.pos]
            self.pos += 1
            self.pc.append(cond if d else z3.Not(cond))
            return d
        self.engine.at_frontier(self)
        t = self._sat(cond)
        f = self._sat(z3.Not(cond))
        if t and f:
            self.engine.push(self.script[:self.pos] + [False])
            d = True
        elif t:
            d = True
        elif f:
            d = False
        else:
            raise PathDead()
        self.script.append(d)
        self.pos += 1
        self.pc.append(cond if d else z3.Not(cond))
        return d

    def choose(self, n, label="choice"):
        """n-ary structural choice (shapes of the pre-state, loop mode ...)."""
        if n <= 0:
            raise PathDead()
        if n == 1:
            return 0
        if self.pure:
            raise NotPure()
        if self.pos < len(self.script):
            d = self.script[self.pos]
            self.pos += 1
            return d
        self.engine.at_frontier(self)
        for alt in range(n - 1, 0, -1):
            self.engine.push(self.script[:self.pos] + [alt])
        self.script.append(0)
        self.pos += 1
        return 0

    # ---- obligations ------------------------------------------------------
    def oblige(self, name, goal, meta=None, kind="post", assume_after=True, using=None):
        """using: prove the goal from these hypotheses only (each of which must already follow from the path
        condition: it is checked first); keeps hard nonlinear queries small."""
        if using is not None and not self.pure:
            for i, h in enumerate(using):
                self.oblige("%s.using-%d" % (name, i), h, meta, kind=kind, assume_after=False)
            if isinstance(goal, bool):
                goal = z3.BoolVal(goal)
            m = dict(meta or {})
            if self.fn_stack:
                m.setdefault("in", self.fn_stack[-1])
            hyps = [h for h in using if not isinstance(h, bool)]
            if getattr(self, "adopted_loops", False):
                m["adopted"] = True
            self.obligations.append(Obligation(name, hyps, goal, m, list(self.script[:self.pos]), kind))
            if assume_after and as_const_bool(goal) is None:
                self.pc.append(goal)
            return
        if self.pure:
            # obligations whose goal is trivially true are fine in pure mode
            c = as_const_bool(goal) if not isinstance(goal, bool) else goal
            if c is True:
                return
            raise NotPure()
        if isinstance(goal, bool):
            goal = z3.BoolVal(goal)
        m = dict(meta or {})
        if self.fn_stack:
            m.setdefault("in", self.fn_stack[-1])
        if getattr(self, "adopted_loops", False):
            m["adopted"] = True
        self.obligations.append(Obligation(name, list(self.pc), goal, m, list(self.script[:self.pos]), kind))
        if assume_after:
            c = as_const_bool(goal)
            if c is False:
                raise PathDead()
            if c is None:
                self.pc.append(goal)

    def cover(self, name):
        """Reachability marker (vacuity guard): the current pc must be satisfiable."""
        self.covers.append((name, list(self.pc)))

    def log_write(self, container, key):
        if self.pure:
            raise NotPure()
        self.writes.append((container, key))


class Engine(object):
    def __init__(self, max_paths=20000, frontier_depth=None):
        self.work = []
        self.stats = Stats()
        self.max_paths = max_paths
        self.frontier_depth = frontier_depth
        self.frontier = []
        self.unsupported_paths = []
        self.path_local_unsupported = False

    def at_frontier(self, ctx):
        """Frontier mode: stop at the first new decision at depth >= frontier_depth and record the prefix."""
        if self.frontier_depth is not None and ctx.pos >= self.frontier_depth:
            self.frontier.append(list(ctx.script[:ctx.pos]))
            raise FrontierReached()

    def push(self, script):
        self.work.append(script)

    def run(self, thunk, start=None):
        """thunk(ctx) is executed once per path.  Returns list of finished PathCtx.
        start: explore only the sub-tree below this decision prefix."""
        self.work = [list(start or [])]
        done = []
        while self.work:
            script = self.work.pop()
            ctx = PathCtx(self, script)
            try:
                thunk(ctx)
                done.append(ctx)
                self.stats.paths += 1
            except FrontierReached:
                continue
            except Unsupported as u:
                # the executor left its subset on THIS path: the function stays undecided, but the obligations of the
                # other paths (and those recorded on this path before that point) are still obligations
                if not self.path_local_unsupported:
                    raise
                self.unsupported_paths.append("%s (%s)" % (u, u.where or getattr(u.node, "lineno", "?")))
                self.stats.dead_paths += 1
                ctx.covers = []
                done.append(ctx)
            except PathDead:
                self.stats.dead_paths += 1
                # obligations recorded before the path died are still obligations
                done.append(ctx)
            if self.stats.paths + self.stats.dead_paths > self.max_paths:
                raise Unsupported("path explosion (> %d paths)" % self.max_paths)
        return done

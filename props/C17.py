ID = "C17"
LEVEL = "proof"
TAGS = ("C17",)
from props.common import ALL_CONTRACTS
CONTRACT_MODULES = ALL_CONTRACTS
FUNCTIONS = [
    "RectangularRegion.RectangularRegion.__init__",
    "RectangularRegion.RectangularRegion.containsPoint",
    "RectangularRegion.RectangularRegion.containsRegion",
    "CircularRegion.CircularRegion.__init__",
    "CircularRegion.CircularRegion.containsPoint",
    "CircularRegion.CircularRegion.containsRegion",
]
SELFCHECK = ["RectangularRegion.RectangularRegion.containsRegion", "RectangularRegion.RectangularRegion.containsPoint", "RectangularRegion.RectangularRegion.__init__"]
ASSUMPTIONS = ["A1", "A2"]
EXPLANATION = ("Closed-set membership of both region classes, corner normalisation and soundness of all four "
               "containsRegion type pairs as post-conditions over symbolic real parameters (universally "
               "quantified point skolemised); nonlinear real arithmetic decided by z3/nlsat.")
BREAKERS = [
    {"module": "RectangularRegion", "old": "(x >= self.x1) and (x <= self.x2)", "new": "(x > self.x1) and (x <= self.x2)",
     "desc": "open left edge in RectangularRegion.containsPoint"},
    {"module": "CircularRegion", "old": "self.cy - otherRegion.cy) + otherRegion.r", "new": "self.cy - otherRegion.cy)",
     "desc": "circle-in-circle test forgets the inner radius"},
    {"module": "RectangularRegion", "old": "(otherRegion.cx + otherRegion.r <= self.x2)", "new": "(otherRegion.cx <= self.x2)",
     "desc": "rect-contains-circle ignores the radius on the right edge"},
    {"module": "RectangularRegion", "old": "if (y2 < y1):", "new": "if (False):",
     "desc": "y corners not normalised"},
    {"module": "CircularRegion", "old": "self.containsPoint(otherRegion.x2, otherRegion.y2) and", "new": "",
     "desc": "circle-contains-rect skips one corner"},
]

from props.common import *
from props.boundedrun import script
ID = "C14"
LEVEL = "proof"
TAGS = ("C14",)
CONTRACT_MODULES = ALL_CONTRACTS
FUNCTIONS = [H + "handleAtCommand", S + "disableExclusion", S + "enableExclusion", S + "exitExcludedRegion", S + "isAnyPointExcluded",
             S + "isPointExcluded", S + "processLinearMoves", P + "handleAtCommandQueuing", "AtCommandAction.AtCommandAction.matches", "__init__.ExcludeRegionPlugin._handleSettingsUpdated"] + [S + "resetState"] + [P + "on_event"] + [H + "handleGcode", H + "_handle_G0", H + "_handle_G1", H + "_handle_G2", H + "_handle_G3"]
ASSUMPTIONS = ["A1", "A2", "A3", "A4", "A5", "INDUCTION"]
BOUNDED = [script("default_actions.py")]
EXTRA_ASSUMPTIONS = ["the DEFAULT @-command patterns (get_settings_defaults) are checked bounded on the real AtCommandAction objects (bounded/default-actions); custom patterns are opaque predicates",
                     "handleAtCommand is verified for 0, 1 or 2 configured entries per @-command with symbolic actions/patterns (bounded in the "
                     "number of entries; everything else symbolic); a configured parameterPattern is an opaque predicate"]
EXPLANATION = ("isPointExcluded/isAnyPointExcluded: while disabled no point is excluded, and the tracked X/Y still follow every pair "
               "(so decisions after re-enabling use the true position); disableExclusion mid-episode returns exactly an exit sequence "
               "(C03.resync obligations) and handleAtCommand sends it in order through the comm instance; streaming to SD or no matching "
               "entry: returns False with an empty write set; AtCommandAction.matches is true exactly when the command names are equal and "
               "the configured pattern (an opaque predicate) matches the parameter text at its start. " + STREAM_NOTE + " The @-command table built by _handleSettingsUpdated keeps every configured action, grouped by command in configuration order. "
               "The dispatcher and the move handlers (handleGcode, _handle_G0.._handle_G3) hand every move -- arcs included -- to processLinearMoves "
               "whether or not exclusion is enabled, so position, extruder coordinate and an owed recovery keep being tracked while disabled; "
               "on_event resets the state at every print start (base case).")
BREAKERS = [
    {"module": "ExcludeRegionState", "old": "        xAxis = self.position.X_AXIS\n        yAxis = self.position.Y_AXIS\n        exclude = False\n\n        for index",
     "new": "        xAxis = self.position.X_AXIS\n        yAxis = self.position.Y_AXIS\n        exclude = False\n        if (not self._exclusionEnabled):\n            return False\n\n        for index",
     "desc": "X/Y not tracked while exclusion is disabled (original F1)", "functions": [S + "isAnyPointExcluded"]},
    {"module": "GcodeHandlers", "old": "        if (commInstance.isStreaming()):\n            return False", "new": "        if (False):\n            return False",
     "desc": "@-commands processed while streaming to SD", "functions": [H + "handleAtCommand"]},
    {"module": "ExcludeRegionState", "old": "            if (self.excluding):\n                returnCommands = self.exitExcludedRegion(context)", "new": "            if (self.excluding):\n                self.excluding = False",
     "desc": "disable mid-episode closes the episode without re-synchronising", "functions": [S + "disableExclusion", H + "handleAtCommand"]},
]

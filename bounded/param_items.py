"""C19(a) bounded stand-in: parameterItems vs. an independent RS274 reader, on all word sequences of bounded length.

Space: sequences of <= 3 (quick) / <= 4 (thorough) words; each word = letter from {X, y, E, e, N, S} + 0..2 spaces +
one of 15 number spellings (signs, leading/trailing dot, leading zeros, none) ; words separated by '', ' ' or '  '.
Compared: the ordered (LETTER, value) pairs for letter items (the trailing free-text item ('', ...) the parser adds after
a valueless letter is not a letter pair)."""
import itertools
import sys

from common import setup, emit

tier, seed, repo = sys.argv[1], int(sys.argv[2]), sys.argv[3]
setup(repo)
from octoprint_excluderegion.GcodeParser import GcodeParser  # noqa: E402
from spec import rs274  # noqa: E402

LETTERS = ["X", "y", "E", "e", "N", "S"]
NUMS = ["", "1", "12", "0", "007", "1.5", ".5", "5.", "-1", "+2", "-.25", "+3.", "0.0", "-0", "10.25"]
INNER = ["", " ", "  "]
SEPS = ["", " ", "  "]
MAXW = 3 if tier == "quick" else 4

words = [l + sp + n for l in LETTERS for sp in (INNER if True else [""]) for n in NUMS]
# keep the enumeration tractable: full inner-space variety only for the first word
words_rest = [l + n for l in LETTERS for n in NUMS] + [l + " " + n for l in LETTERS[:2] for n in NUMS[:4]]

cases = 0
violations = []
distinct = set()
p = GcodeParser()


def check(text):
    global cases
    cases += 1
    got = [(k, v) for (k, v) in p.parameterItems(text) if k != ""]
    exp = [(l, (None if v is None else float(v))) for (l, v) in rs274.words(text) if l != "?"]
    if got != exp:
        violations.append({"clause": "C19.tokenisation", "input": text, "detail": "parser %r, reference %r" % (got, exp)})
    distinct.add(text)


for w in words:
    check(w)
for k in range(2, MAXW + 1):
    for first in words[::3] if k > 2 else words:
        for rest in itertools.product(words_rest[::(1 if k == 2 else 7)], repeat=k - 1):
            for sep in SEPS[:2] if k > 2 else SEPS:
                check(sep.join((first,) + rest))
# cache coherence on a re-used parser object: after parameterDict has been read, assigning new parameters (setter) or parsing
# another command must be reflected by parameterDict / parameterItems / commandString
PAIRS = ["X1 Y2", "X5", "E.5 F1200", "S0", "x-3 y+4.", "P T5"]
for a in PAIRS:
    for b_ in PAIRS:
        for how in ("setter", "parse"):
            cases += 1
            q = GcodeParser().parse("G1 " + a)
            _ = q.parameterDict
            _ = q.commandString
            if how == "setter":
                q.parameters = b_
            else:
                q.parse("G1 " + b_)
            exp = {}
            for (l, v) in rs274.words(b_):
                if l != "?":
                    exp[l] = None if v is None else float(v)
            got = dict((k, v) for (k, v) in q.parameterDict.items() if k != "")
            items = dict((k, v) for (k, v) in q.parameterItems() if k != "")
            if got != exp or items != exp or not q.commandString.endswith(b_):
                violations.append({"clause": "C19.cache-coherence", "input": "%s then %s (%s)" % (a, b_, how),
                                   "detail": "parameterDict %r, parameterItems %r, commandString %r, reference %r" % (got, items, q.commandString, exp)})
emit({"name": "bounded/parameter-items", "bounded": True,
      "bound": "word sequences of length <= %d over %d letters x %d number spellings x spacing variants" % (MAXW, len(LETTERS), len(NUMS)),
      "cases": cases, "distinct_nontrivial": len(distinct), "exhaustive": False,
      "rule": "a case is one parameter string; distinct by text; every case has at least one word",
      "samples": ["X1.5 y-2", "E.5", "X 1Y+3.", "N007S"], "violations": violations[:20], "n_violations": len(violations)})

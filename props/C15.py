from props.common import *
ID = "C15"
LEVEL = "proof"
TAGS = ("C15",)
CONTRACT_MODULES = ALL_CONTRACTS
FUNCTIONS = [P + "handleScriptHook", S + "exitExcludedRegion", S + "_processPendingCommands"] + [P + "on_event"]
ASSUMPTIONS = ["A1", "A3", "A4", "A5", "INDUCTION"]
EXPLANATION = ("handleScriptHook returns (exit sequence, None) exactly when type='gcode', name='afterPrintDone', a job is active and an "
               "episode is open -- the sequence has the exit structure (deferred commands, exit script, G92 E, G0 moves; each once) and "
               "leaves the filter not excluding, so a second invocation contributes nothing; in every other case it returns None with an "
               "empty write set (script type/name: the three interesting constants plus fully symbolic strings).")
BREAKERS = [
    {"module": "__init__", "old": "            if (self.isActivePrintJob and self.state.excluding):", "new": "            if (self.state.excluding):",
     "desc": "cleanup contributed although no print is active", "functions": [P + "handleScriptHook"]},
    {"module": "__init__", "old": "        if (scriptType == \"gcode\") and (scriptName == \"afterPrintDone\"):", "new": "        if (scriptName == \"afterPrintDone\"):",
     "desc": "script type not checked", "functions": [P + "handleScriptHook"]},
    {"module": "ExcludeRegionState", "old": "        self.excluding = False\n\n        # Moving back into printable region", "new": "        # Moving back into printable region",
     "desc": "exit does not clear the excluding flag (cleanup would repeat)", "functions": [P + "handleScriptHook", S + "exitExcludedRegion"]},
]

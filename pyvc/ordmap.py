"""Insertion-ordered map model (collections.OrderedDict) for `pendingCommands` -- DESIGN.md 3.3.

Abstract view: n entries in insertion order; key(i): String (pairwise distinct); value(i) is either a command string
or an argument map (letter code -> present / valueless / number).  All of it lives in z3 arrays so that the
view of a map of arbitrary symbolic size can be compared before/after an operation."""
import z3

from . import ops
from .values import Model, Unsupported, SymSeq, Opt, next_oid, PyDict, is_strlike
from .stubs import sstr_to_z3

I, B, R, S = z3.IntSort(), z3.BoolSort(), z3.RealSort(), z3.StringSort()
AB, AR = z3.ArraySort(I, B), z3.ArraySort(I, R)


class View(object):
    """Immutable abstract value of an ordered map."""

    def __init__(self, n, key, is_map, sval, mhas, mnone, mval):
        self.n, self.key, self.is_map, self.sval, self.mhas, self.mnone, self.mval = n, key, is_map, sval, mhas, mnone, mval

    def fields(self):
        return (self.key, self.is_map, self.sval, self.mhas, self.mnone, self.mval)

    def with_(self, n=None, **kw):
        d = dict(n=self.n if n is None else n, key=self.key, is_map=self.is_map, sval=self.sval, mhas=self.mhas,
                 mnone=self.mnone, mval=self.mval)
        d.update(kw)
        return View(**d)


def fresh_view(ctx, name):
    def arr(suffix, rng):
        return z3.Array(ctx.fresh_name("%s.%s" % (name, suffix)), I, rng)
    return View(ctx.int(name + ".len", record=False), arr("key", S), arr("isMap", B), arr("str", S), arr("mhas", AB),
                arr("mnone", AB), arr("mval", AR))


def empty_argmap_arrays():
    return z3.K(I, z3.BoolVal(False)), z3.K(I, z3.BoolVal(False)), z3.K(I, z3.RealVal(0))


class ArgMap(Model):
    """A python dict {letter: number | None} (the merged arguments of a deferred command)."""

    clsname = "dict"

    def __init__(self, has, none, val):
        self.has, self.none, self.val = has, none, val
        self.oid = next_oid()
        self.fresh = True
        self.loop_local = True

    @classmethod
    def empty(cls):
        return cls(*empty_argmap_arrays())

    def call_method(self, interp, name, args, kwargs, node):
        if name == "__setitem__":
            from .gitems import Label
            label, value = args
            if not isinstance(label, Label):
                raise Unsupported("argument map key %r" % (label,), node)
            interp.ctx.log_write(self, "*")
            c = label.code
            self.has = z3.Store(self.has, c, z3.BoolVal(True))
            if value is None:
                self.none = z3.Store(self.none, c, z3.BoolVal(True))
            elif isinstance(value, Opt):
                self.none = z3.Store(self.none, c, ops.lift(value.isnone))
                self.val = z3.Store(self.val, c, value.val)
            else:
                self.none = z3.Store(self.none, c, z3.BoolVal(False))
                self.val = z3.Store(self.val, c, ops.lift(interp.num(value, node)))
            return None
        if name == "__bool__":
            raise Unsupported("truth value of an argument map", node)
        if name in ("__eq__", "__ne__") and len(args) == 1 and (is_strlike(args[0]) or args[0] is None):
            return name == "__ne__"          # a dict never equals a string or None
        raise Unsupported("dict.%s on an argument map" % name, node)

    def copy(self, memo=None):
        return ArgMap(self.has, self.none, self.val)

    def struct_eq(self, other):
        return argmap_eq((self.has, self.none, self.val), (other.has, other.none, other.val))

    def read(self, key):
        return self


def argmap_eq(a, b):
    """Same set of letters with the same values (valueless letters compare equal)."""
    L = z3.Int("L!%d" % next_oid())
    ha, na, va = a
    hb, nb, vb = b
    return z3.ForAll([L], z3.And(z3.Select(ha, L) == z3.Select(hb, L),
                                 z3.Implies(z3.Select(ha, L), z3.And(z3.Select(na, L) == z3.Select(nb, L),
                                                                     z3.Implies(z3.Not(z3.Select(na, L)), z3.Select(va, L) == z3.Select(vb, L))))))


class Entry(object):
    """Element i of a view (spec side)."""

    def __init__(self, view, i):
        self.view, self.i = view, i

    key = property(lambda s: z3.Select(s.view.key, s.i))
    is_map = property(lambda s: z3.Select(s.view.is_map, s.i))
    sval = property(lambda s: z3.Select(s.view.sval, s.i))
    args = property(lambda s: (z3.Select(s.view.mhas, s.i), z3.Select(s.view.mnone, s.i), z3.Select(s.view.mval, s.i)))


def entry_eq(a, b):
    """Same key and same value."""
    return z3.And(a.key == b.key, a.is_map == b.is_map, z3.If(a.is_map, argmap_eq(a.args, b.args), a.sval == b.sval))


class OrdMap(Model):
    clsname = "OrderedDict"

    def __init__(self, view, tag="om"):
        self._view = view
        self.live = None         # (index term, ArgMap object) of an entry whose dict object may still be mutated
        self.lookups = []        # ghost: (op, key, found, index) of every keyed access, for witnesses in contracts
        self.tag = tag
        self.oid = next_oid()
        self.fresh = False

    # ---- construction
    @classmethod
    def empty(cls, ctx):
        v = fresh_view(ctx, "emptymap")
        m = cls(v.with_(n=z3.IntVal(0)))
        m.fresh = True
        return m

    @classmethod
    def symbolic(cls, ctx, name="pending"):
        v = fresh_view(ctx, name)
        n = ctx.int(name + ".len")
        v = v.with_(n=n)
        ctx.assume(n >= 0, definitional=True)
        ctx.assume(distinct_keys(v), definitional=False)
        return cls(v, tag=name)

    # ---- abstract value
    def view(self):
        """Current abstract value (the contents of a live argument map are read now)."""
        v = self._view
        if self.live is not None:
            idx, am = self.live
            v = v.with_(mhas=z3.Store(v.mhas, idx, am.has), mnone=z3.Store(v.mnone, idx, am.none), mval=z3.Store(v.mval, idx, am.val))
        return v

    @property
    def n(self):
        return self._view.n

    def is_empty(self):
        return self._view.n == 0

    def _freeze(self):
        self._view = self.view()
        self.live = None

    # ---- operations
    def call_method(self, interp, name, args, kwargs, node):
        ctx = interp.ctx
        if name == "__bool__":
            return self._view.n > 0
        if name == "__len__":
            return self._view.n
        if name == "clear":
            ctx.log_write(self, "*")
            self._freeze()
            self._view = self._view.with_(n=z3.IntVal(0))
            return None
        if name == "__contains__":
            k = _key(args[0], node)
            found, j = self._index_of(ctx, k)
            self.lookups.append(("in", k, found, j))
            return found
        if name == "__setitem__":
            return self._setitem(interp, _key(args[0], node), args[1], node)
        if name == "pop":
            return self._pop(interp, _key(args[0], node), args[1] if len(args) > 1 else _NODEFAULT, node)
        if name == "items":
            self._freeze()
            v = self._view
            return SymSeq(v.n, lambda i: (z3.Select(v.key, i), StoredValue(v, i)), name="pending.items")
        if name in ("get", "__getitem__") and 1 <= len(args) <= 2:
            self._freeze()
            k = _key(args[0], node)
            found, j = self._index_of(ctx, k)
            self.lookups.append(("get", k, found, j))
            if interp.truth(found, node):
                return StoredValue(self._view, j).resolve(interp)
            if name == "__getitem__":
                from .values import PyExc
                raise PyExc("KeyError", ())
            return args[1] if len(args) > 1 else None
        raise Unsupported("OrderedDict.%s" % name, node)

    def _index_of(self, ctx, k):
        """Fresh index j with: found <=> (0 <= j < n and key(j) == k); not found => no entry has the key."""
        v = self._view
        j = ctx.int("om.idx", record=False)
        found = ctx.bool("om.found", record=False)
        q = z3.Int("q!%d" % next_oid())
        ctx.assumed.add("A2:OrderedDict lookup finds the (unique) entry with the key, if any")
        ctx.assume(z3.And(z3.Implies(found, z3.And(j >= 0, j < v.n, z3.Select(v.key, j) == k)),
                          z3.Implies(z3.Not(found), z3.ForAll([q], z3.Implies(z3.And(q >= 0, q < v.n), z3.Select(v.key, q) != k)))),
                   definitional=True)
        return found, j

    def _store_value(self, v, idx, value, interp, node):
        if isinstance(value, ArgMap):
            return v.with_(is_map=z3.Store(v.is_map, idx, z3.BoolVal(True))), (idx, value)
        if isinstance(value, PyDict) and not value.d:
            am = ArgMap.empty()
            return v.with_(is_map=z3.Store(v.is_map, idx, z3.BoolVal(True))), (idx, am)
        z = sstr_to_z3(value) if is_strlike(value) else None
        if z is None:
            raise Unsupported("value stored in pendingCommands: %r" % (value,), node)
        return v.with_(is_map=z3.Store(v.is_map, idx, z3.BoolVal(False)), sval=z3.Store(v.sval, idx, z)), None

    def _setitem(self, interp, k, value, node):
        ctx = interp.ctx
        ctx.log_write(self, "*")
        self._freeze()
        value = interp.deref(value)
        found, j = self._index_of(ctx, k)
        self.lookups.append(("set", k, found, j))
        v = self._view
        if interp.truth(found, node):
            nv, live = self._store_value(v, j, value, interp, node)          # value replaced, position kept
        else:
            nv, live = self._store_value(v.with_(key=z3.Store(v.key, v.n, k)), v.n, value, interp, node)
            nv = nv.with_(n=v.n + 1)
        self._view = nv
        self.live = live
        return None

    def _pop(self, interp, k, default, node):
        ctx = interp.ctx
        self._freeze()
        found, j = self._index_of(ctx, k)
        self.lookups.append(("pop", k, found, j))
        v = self._view
        if interp.truth(found, node):
            ctx.log_write(self, "*")
            val = StoredValue(v, j).resolve(interp)
            nv = fresh_view(ctx, "om.pop")
            q = z3.Int("q!%d" % next_oid())
            ax = []
            for new, old in zip(nv.fields(), v.fields()):
                ax.append(z3.ForAll([q], z3.Select(new, q) == z3.If(q < j, z3.Select(old, q), z3.Select(old, q + 1))))
            ctx.assumed.add("A2:OrderedDict.pop removes the entry and keeps the order of the others")
            ctx.assume(z3.And(*ax), definitional=True)
            self._view = nv.with_(n=v.n - 1)
            return val
        if default is _NODEFAULT:
            from .values import PyExc
            raise PyExc("KeyError", ())
        if isinstance(default, PyDict) and not default.d:
            return ArgMap.empty()
        return default

    # ---- plumbing
    def copy(self, memo=None):
        c = OrdMap(self.view(), self.tag)
        c.fresh = True
        return c

    def struct_eq(self, other):
        return same_map(self.view(), other.view())

    def read(self, key):
        return self

    def children(self):
        return []

    def havoc(self, ctx, tag):
        self.live = None
        v = fresh_view(ctx, "pending'" + tag)
        ctx.assume(v.n >= 0, definitional=True)
        self._view = v


_NODEFAULT = object()


class StoredValue(Model):
    """value(i) of a view: a command string or an argument map (decided lazily)."""

    clsname = "pending-value"

    def __init__(self, view, i):
        self.view, self.i = view, i

    @property
    def is_map(self):
        return z3.Select(self.view.is_map, self.i)

    def materialise(self):
        """As a program value: must know which kind it is (the caller branches on is_map first)."""
        return self

    def as_argmap(self):
        return ArgMap(z3.Select(self.view.mhas, self.i), z3.Select(self.view.mnone, self.i), z3.Select(self.view.mval, self.i))

    def as_string(self):
        return z3.Select(self.view.sval, self.i)

    def resolve(self, interp):
        if getattr(self, "_resolved", None) is None:
            self._resolved = self.as_argmap() if interp.ctx.branch(self.is_map) else self.as_string()
        return self._resolved

    def call_method(self, interp, name, args, kwargs, node):
        return interp.call_method(self.resolve(interp), name, args, kwargs, node)


def _key(k, node):
    z = sstr_to_z3(k) if is_strlike(k) else None
    if z is None:
        raise Unsupported("OrderedDict key %r" % (k,), node)
    return z


def distinct_keys(v):
    i, j = z3.Int("i!%d" % next_oid()), z3.Int("j!%d" % next_oid())
    return z3.ForAll([i, j], z3.Implies(z3.And(0 <= i, i < j, j < v.n), z3.Select(v.key, i) != z3.Select(v.key, j)))


def same_map(a, b):
    q = z3.Int("q!%d" % next_oid())
    return z3.And(a.n == b.n, z3.ForAll([q], z3.Implies(z3.And(q >= 0, q < a.n), entry_eq(Entry(a, q), Entry(b, q)))))

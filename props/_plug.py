ID = "_plug"
LEVEL = "proof"
TAGS = ("C13", "C12", "C11", "C15", "C10")
CONTRACT_MODULES = ["contracts.geometry", "contracts.axis", "contracts.state", "contracts.plugin"]
FUNCTIONS = ["__init__.ExcludeRegionPlugin." + m for m in (
    "_notifyExcludedRegionsChanged", "on_api_get", "_handleAddExcludeRegion", "_handleDeleteExcludeRegion", "_handleUpdateExcludeRegion", "on_api_command", "handleGcodeQueuing", "handleAtCommandQueuing", "on_event")] + ["ExcludeRegionState.ExcludeRegionState.resetState"]

"""Contracts for RectangularRegion / CircularRegion (property C17; used by C12, C01)."""
from pyvc.contracts import contract
from pyvc import ops
from pyvc.ops import And, Or, Not, Implies, Iff, Min, Max, eq
from spec import geometry as G


def mk_rect(b, name, normalised=True):
    r = b.new("RectangularRegion", x1=b.real(name + ".x1"), y1=b.real(name + ".y1"),
              x2=b.real(name + ".x2"), y2=b.real(name + ".y2"), id=b.string(name + ".id"))
    return r


def mk_circle(b, name):
    return b.new("CircularRegion", cx=b.real(name + ".cx"), cy=b.real(name + ".cy"),
                 r=b.real(name + ".r"), id=b.string(name + ".id"))


def mk_other_region(b, name):
    """The three shapes an 'otherRegion' argument can have: rectangle, circle, anything else."""
    k = b.choose(3, "otherRegion type")
    if k == 0:
        return mk_rect(b, name)
    if k == 1:
        return mk_circle(b, name)
    return b.new("Position")  # some object that is not a region


class Shifted(object):
    """A region translated by (vx, vy) (spec-level view)."""

    def __init__(self, r, vx, vy):
        for k in ("x1", "x2", "cx"):
            if hasattr(r, "fields") and k in r.fields or (not hasattr(r, "fields") and hasattr(r, k)):
                setattr(self, k, getattr(r, k) + vx)
        for k in ("y1", "y2", "cy"):
            if hasattr(r, "fields") and k in r.fields or (not hasattr(r, "fields") and hasattr(r, k)):
                setattr(self, k, getattr(r, k) + vy)
        if (hasattr(r, "fields") and "r" in r.fields) or (not hasattr(r, "fields") and hasattr(r, "r")):
            self.r = r.r


def containment_sound(f, outer_contains):
    """C17(c): reported containment implies point-set inclusion.  The universally quantified point is
    the ghost point (px, py): arbitrary when the method is verified, and the *caller's* ghost point when
    the contract is used at a call site (instantiation of the proved universal statement)."""
    if f.exc is not None or "px" not in f.g:
        return True
    px, py = f.g["px"], f.g["py"]
    return Implies(And(f.result, G.region_contains(f.a.otherRegion, px, py)), outer_contains(f.self, px, py))


# ---------------------------------------------------------------- RectangularRegion
@contract("RectangularRegion.RectangularRegion.__init__")
def _(c):
    def pre(b):
        kw = {"x1": b.real("a.x"), "y1": b.real("a.y"), "x2": b.real("b.x"), "y2": b.real("b.y"),
              "id": b.string("id")}
        return {"self": b.new("RectangularRegion"), "args": {"args": (), "kwargs": b.dict(kw)}}
    c.pre(pre)
    # C17(a2): whatever the corner order, the stored rectangle is the same normalised set
    c.ensures("C17.corner-normalisation", lambda f: And(
        eq(f.self.x1, Min(f.a.kwargs["x1"], f.a.kwargs["x2"])),
        eq(f.self.x2, Max(f.a.kwargs["x1"], f.a.kwargs["x2"])),
        eq(f.self.y1, Min(f.a.kwargs["y1"], f.a.kwargs["y2"])),
        eq(f.self.y2, Max(f.a.kwargs["y1"], f.a.kwargs["y2"]))), props=("C17",))
    c.ensures("rect-invariant", lambda f: G.rect_ok(f.self), props=("C17", "C12"))
    c.ensures("id-kept", lambda f: eq(f.self.id, f.a.kwargs["id"]), props=("C13",))


@contract("RectangularRegion.RectangularRegion.containsPoint")
def _(c):
    c.pre(lambda b: {"self": mk_rect(b, "self"), "args": {"x": b.real("x"), "y": b.real("y")},
                     "ghost": {"vx": b.real("v.x"), "vy": b.real("v.y")}})
    c.modifies()
    # C08 (Tr): translating region and point by the same vector does not change the answer
    c.ensures("C08.translation-invariant", lambda f: Iff(f.result, G.rect_contains(
        Shifted(f.self, f.g["vx"], f.g["vy"]), f.a.x + f.g["vx"], f.a.y + f.g["vy"])) if "vx" in f.g else True, props=("C08",))
    c.ensures("C17.closed-rectangle", lambda f: Iff(f.result, G.rect_contains(f.self, f.a.x, f.a.y)),
              props=("C17", "C01", "C12"))
    c.result("bool")
    c.use_modular()


@contract("RectangularRegion.RectangularRegion.containsRegion")
def _(c):
    def pre(b):
        return {"self": mk_rect(b, "self"), "args": {"otherRegion": mk_other_region(b, "other")},
                "ghost": {"px": b.real("p.x"), "py": b.real("p.y")}}
    c.pre(pre)
    c.modifies()
    c.raises("ValueError", when=lambda f: not (G.is_rect(f.a.otherRegion) or G.is_circle(f.a.otherRegion)))
    # C17(c): reported containment implies point-set inclusion (p is the skolemised point)
    c.ensures("C17.containment-sound", lambda f: containment_sound(f, G.rect_contains), props=("C17", "C12"))
    c.result("bool")
    c.use_modular()


# ---------------------------------------------------------------- CircularRegion
@contract("CircularRegion.CircularRegion.__init__")
def _(c):
    def pre(b):
        kw = {"cx": b.real("cx"), "cy": b.real("cy"), "r": b.real("r"), "id": b.string("id")}
        return {"self": b.new("CircularRegion"), "args": {"args": (), "kwargs": b.dict(kw)}}
    c.pre(pre)
    c.ensures("fields-stored", lambda f: And(eq(f.self.cx, f.a.kwargs["cx"]), eq(f.self.cy, f.a.kwargs["cy"]),
                                             eq(f.self.r, f.a.kwargs["r"]), eq(f.self.id, f.a.kwargs["id"])),
              props=("C17", "C13"))


@contract("CircularRegion.CircularRegion.containsPoint")
def _(c):
    c.pre(lambda b: {"self": mk_circle(b, "self"), "args": {"x": b.real("x"), "y": b.real("y")},
                     "ghost": {"vx": b.real("v.x"), "vy": b.real("v.y")}})
    c.modifies()
    c.ensures("C08.translation-invariant", lambda f: Iff(f.result, G.circle_contains(
        Shifted(f.self, f.g["vx"], f.g["vy"]), f.a.x + f.g["vx"], f.a.y + f.g["vy"])) if "vx" in f.g else True, props=("C08",))
    c.ensures("C17.closed-disc", lambda f: Iff(f.result, G.circle_contains(f.self, f.a.x, f.a.y)),
              props=("C17", "C01", "C12"))
    c.result("bool")
    c.use_modular()


@contract("CircularRegion.CircularRegion.containsRegion")
def _(c):
    def pre(b):
        return {"self": mk_circle(b, "self"), "args": {"otherRegion": mk_other_region(b, "other")},
                "ghost": {"px": b.real("p.x"), "py": b.real("p.y")}}
    c.pre(pre)
    c.modifies()
    c.raises("ValueError", when=lambda f: not (G.is_rect(f.a.otherRegion) or G.is_circle(f.a.otherRegion)))
    c.ensures("C17.containment-sound", lambda f: containment_sound(f, G.circle_contains), props=("C17", "C12"))
    c.result("bool")
    c.use_modular()


# ------------------------------------------------------------------------------------------ toDict (C13 payloads)
@contract("CommonMixin.CommonMixin.toDict")
def _(c):
    """The dictionary sent to listeners / returned by GET for a region: exactly the instance attributes (id and
    coordinates, unchanged) plus 'type' = the class name.  (The region-list model's toDict() is this function's
    summary; here the real function is executed on both region classes.)"""
    def pre(b):
        k = b.choose(2, "region class")
        reg = mk_rect(b, "r") if k == 0 else mk_circle(b, "c")
        return {"self": reg, "args": {}, "ghost": {"cls": ["RectangularRegion", "CircularRegion"][k]}}
    c.pre(pre)
    c.modifies()

    def post(f):
        d = f.result
        d = d if isinstance(d, dict) else getattr(d, "d", None)
        if d is None:
            return False
        obj = f.self
        fields = dict(vars(obj)) if getattr(f, "native", False) else dict(obj.fields)
        if set(d.keys()) != set(fields.keys()) | {"type"}:
            return False
        conds = [d["type"] == f.g["cls"]]
        for k, v in fields.items():
            got = d[k]
            if isinstance(v, str) or isinstance(got, str) or (ops.is_sym(v) and str(v.sort()) == "String"):
                conds.append(ops.str_eq(got, v))
            else:
                conds.append(eq(got, v))
        return And(*conds)
    c.ensures("C13.region-dictionary-is-the-region", post, props=("C13", "C12", "C17"))

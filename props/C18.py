from props.common import *
from props.boundedrun import script
ID = "C18"
LEVEL = "other"
TAGS = ("C18",)
CONTRACT_MODULES = ALL_CONTRACTS
FUNCTIONS = ["GcodeParser.GcodeParser.parse", "GcodeParser.GcodeParser.computeChecksum", "GcodeParser.GcodeParser.validate",
             "GcodeParser.GcodeParser._updateParameters", "GcodeParser.GcodeParser.lineNumber.setter"]
ASSUMPTIONS = ["A2", "A4"]


def line_pattern_lemmas(edits):
    """Totality / progress of REGEX_GCODE_LINE, derived from the pattern text constant-folded out of the real source."""
    from pyvc.source import Program
    from pyvc.verify import make_interp
    from pyvc.ctx import Engine, PathCtx
    from pyvc.contracts import REGISTRY
    from pyvc import rx
    prog = Program(edits=edits) if edits else Program()
    ctx = PathCtx(Engine(), [])
    g = make_interp(prog, ctx, REGISTRY).module_globals(prog.modules["GcodeParser"])
    return rx.line_pattern_lemmas(g["PAT_GCODE_LINE"])


LEMMAS = [line_pattern_lemmas]
BOUNDED = [script("parser_roundtrip.py")]
EXPLANATION = ("Deductive part: (b) GcodeParser.parse, executed symbolically from an ARBITRARY prior parser state on an arbitrary source text "
               "and offset, against the structural contract of the line pattern derived from the pattern text (some derivation of the "
               "pattern covers the matched slice; priorities not modelled): the pieces it keeps (leading blanks, text, raw checksum, "
               "trailing blanks, comment, eol) re-assemble to exactly the matched text, fullText is the consumed slice of the source, "
               "and a parse that does not start at the end of the text consumes at least one character; (a) the line pattern, translated mechanically from the pattern text in the real source to a z3 "
               "regular expression, matches at every offset of every text (regex universality query) and matches the empty string only "
               "at the end of the text (progress), so parseLines consumes any input completely; (d, checksum half) computeChecksum is the left fold of ^ over the bytes of the text "
               "starting from 0 and lies in 0..255, for texts of any length (loop invariant over the symbolic byte sequence; the bytes "
               "and int ^ are assumed builtin contracts), and validate() raises ValueError exactly when one of line number / checksum "
               "is missing or the checksum differs from computeChecksum(leading blanks + text) and otherwise returns None changing "
               "nothing (against computeChecksum's contract, not its body); (c, cache half) the two writers of parsed fields outside parse() drop the "
               "cached renderings: _updateParameters stores the text and clears the cached dictionary and command string, the lineNumber setter stores "
               "None / int(value) and clears the cached command string when the number changed; both write nothing else. Bounded part (labelled bounded, not "
               "counted under obligations): losslessness of fullText, stability of commandString under re-parsing and checksum "
               "validation are checked exhaustively on all strings up to a length bound over one representative per character class "
               "of the pattern plus all sequences of up to three template lines -- they depend on which derivation the backtracking "
               "engine picks, which a contract on the pattern cannot express.")
TECHNIQUE = "contracts on parse() (over the structural contract of the real pattern; z3 strings, cvc5 --strings-exp as second back end), computeChecksum (loop invariant) and validate() (raises-iff) + regex-language lemmas + bounded exhaustive round-trip check of the real parser"
EXTRA_ASSUMPTIONS = ["the digit class is ASCII 0-9 in the regex translation and in the bounded alphabets",
                     "that the RENDERED line (stringify with line number and checksum) parses back to fields validate() accepts is the bounded "
                     "round trip; the deductive part covers what the checksum is and when validate() raises"]
BREAKERS = [{'desc': '_updateParameters keeps the cached parameter dictionary',
  'functions': ['GcodeParser.GcodeParser._updateParameters'],
  'module': 'GcodeParser',
  'new': '        self._parameters = value\n',
  'old': '        self._parameters = value\n        self._parameterDict = None\n'},
 {'desc': 'checksum starts from 1',
  'functions': ['GcodeParser.GcodeParser.computeChecksum'],
  'module': 'GcodeParser',
  'new': '        checksum = 1\n        for byte',
  'old': '        checksum = 0\n        for byte'},
 {'desc': 'validate accepts a checksum without a line number',
  'functions': ['GcodeParser.GcodeParser.validate'],
  'module': 'GcodeParser',
  'new': '        if (self._checksum is None) and (self.lineNumber is not None):',
  'old': '        if (self._checksum is not None) ^ (self.lineNumber is not None):'},
 {'desc': "catch-all alternative no longer accepts '*'",
  'functions': [],
  'lemmas': True,
  'module': 'GcodeParser',
  'new': '    r"[^;*\\r\\n]*?" +\n',
  'old': '    r"[^;\\r\\n]*?" +\n'},
 {'desc': 'line pattern may match the empty string anywhere',
  'functions': [],
  'lemmas': True,
  'module': 'GcodeParser',
  'new': 'PAT_EOL = r"(\\r\\n|\\r|\\n|)"',
  'old': 'PAT_EOL = r"(\\r\\n|\\r|\\n|\\Z)"'},
 {'desc': 'checksum text not stripped from text (appears twice in fullText)',
  'functions': ['GcodeParser.GcodeParser.parse'],
  'module': 'GcodeParser',
  'new': '            pass\n',
  'old': '            self.text = self.text[:-len(self._rawChecksum)]\n'},
 {'bounded': True,
  'desc': 'stale raw checksum (original F11)',
  'functions': ['GcodeParser.GcodeParser.parse'],
  'module': 'GcodeParser',
  'new': '',
  'old': "        else:\n            # Don't retain the checksum text of a previously parsed line\n            self._rawChecksum = None\n"}]

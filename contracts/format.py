"""C07: commands synthesised by the filter are well-formed plain-decimal G-code.

Deductive part: every number interpolated into a synthesised command goes through GcodeParser.formatNumber (data flow,
seen by the executor as a 'plain' hole), and the command text around the holes reads -- with the independent RS274
reader -- as one code followed by distinct letters.  formatNumber itself rests on CPython's float repr / decimal and is
checked bounded (bounded/format_number.py)."""
from pyvc.contracts import contract, REGISTRY
from pyvc import ops
from pyvc.ops import And, Or, Not, Implies
from spec import rs274
from spec import refprinter as RP
from contracts.motion import S


@contract("GcodeParser.formatNumber")
def _(c):
    def summary(f):
        from pyvc.values import Hole, mkstr, is_number, Opt
        v = f.a.value
        f.interp.ctx.assumed.add("A2:GcodeParser.formatNumber(v) renders v exactly, in plain decimal notation (bounded check in C07)")
        if isinstance(v, Opt):
            v = f.interp.none_obligation(v, None, "formatNumber(None)")
        return mkstr([Hole(v, plain=True)])
    c.summary(summary)
    c.use_modular()


def item_wellformed(item):
    """A synthesised command: one G/M code, then distinct letters, each followed by a number rendered by formatNumber
    (or, natively, a plain decimal literal)."""
    if isinstance(item, str):          # native replay: real text
        import re
        toks = item.split()
        if not toks or not re.match(r"^[GMT][0-9]+(\.[0-9]+)?$", toks[0]):
            return False
        if toks[0] in ("G10", "G11"):
            return True      # firmware retract / recover: the parameter text is copied verbatim from the original command
        letters = [t[0].upper() for t in toks[1:]]
        return all(re.match(r"^[A-Za-z][-+]?[0-9]*\.?[0-9]+$", t) for t in toks[1:]) and len(letters) == len(set(letters))
    parts = RP.item_parts(item)
    if parts is None:
        return True                    # an opaque string that was passed through (not synthesised here)
    holes = [p for p in parts if hasattr(p, "value")]
    ws = rs274.rope_words(parts)
    code, params = rs274.command_of(ws)
    if code is None:
        return False
    # text copied from the original command (G10/G11 parameters) is not synthesised: only the synthesised words count
    params = [(l, v) for (l, v) in params if not (l == "?" and ops.is_sym(v))]
    if not rs274.distinct_letters(params):
        return False
    if any(v is None for (_, v) in params) and not code.startswith("G1"):
        pass
    return all(getattr(h, "plain", False) for h in holes)


def passthrough_texts(f):
    """Native replay only: texts that reach the output without being synthesised by the filter -- the configured
    enter/exit script lines, stored deferred commands and the original text of a remembered firmware retraction.
    (Symbolically these are splices / opaque strings and are recognised by their representation.)"""
    out = set()
    if not getattr(f, "native", False):
        return out
    roots = [getattr(f.old, "self", None)]
    st = getattr(roots[0], "state", None)
    if st is not None:
        roots.append(st)
    for r in roots:
        for name in ("enteringExcludedRegionGcode", "exitingExcludedRegionGcode"):
            v = getattr(r, name, None)
            if isinstance(v, (list, tuple)):
                out.update(x for x in v if isinstance(x, str))
        pend = getattr(r, "pendingCommands", None)
        if hasattr(pend, "values"):
            out.update(x for x in pend.values() if isinstance(x, str))
        for holder in (r, getattr(r, "lastRetraction", None)):
            oc = getattr(holder, "originalCommand", None)
            if isinstance(oc, str):
                out.add(oc)
    return out


def synthesised_wellformed(result, cmd, passthrough=()):
    items = RP.items_of(result)
    if items is None:
        return True
    ok = True
    for it in items:
        if it is None or hasattr(it, "seq") or it is cmd:
            continue
        if isinstance(it, str) and isinstance(cmd, str) and it == cmd:
            continue
        if isinstance(it, str) and it in passthrough:
            continue
        if ops.is_sym(it):
            continue                   # the original command or a stored deferred command: not synthesised
        ok = ok and item_wellformed(it)
    return ok


def _add(qual, getter=None, cmd=None):
    con = REGISTRY.get(qual)
    con.ensures("C07.synthesised-commands-are-plain-decimal",
                lambda f: synthesised_wellformed(getter(f) if getter else f.result, cmd(f) if cmd else None, passthrough_texts(f)),
                props=("C07",))


_add(S + "exitExcludedRegion")
_add(S + "disableExclusion")
_add(S + "processLinearMoves", cmd=lambda f: f.a.cmd)
_add("RetractionState.RetractionState._addCommands")
_add("GcodeHandlers.GcodeHandlers._handle_G10", cmd=lambda f: f.a.cmd)
_add("GcodeHandlers.GcodeHandlers._handle_G11", cmd=lambda f: f.a.cmd)
_add("GcodeHandlers.GcodeHandlers.handleAtCommand", getter=lambda f: list(f.a.commInstance.sent))


# ---------------------------------------------------------------------------------------------- formatNumber itself
def _format_number_contract():
    """formatNumber over the assumed contracts of str / Decimal / format (pyvc/pynum.py): for every finite float and
    every int the result is plain decimal text (no exponent) denoting exactly the value; a string argument (the
    free-text parameter of a merged command) comes back unchanged; nothing is raised.  Callers keep seeing formatNumber
    through its summary (a 'plain' hole)."""
    c = REGISTRY.get("GcodeParser.formatNumber")

    def pre(b):
        k = b.choose(3, "argument type")
        if b.native:
            v = [float(b.real("value")), int(b.real("value")), b.string("text")][k]
            return {"self": None, "args": {"value": v}, "ghost": {"kind": k}}
        from pyvc.pynum import PyNum
        v = [PyNum("float", b.real("value")), PyNum("int", b.int("value")), b.string("text")][k]
        return {"self": None, "args": {"value": v}, "ghost": {"kind": k}}
    c.pre(pre)
    c.modifies()

    def plain(f):
        k = f.g["kind"]
        if getattr(f, "native", False):
            import re
            from fractions import Fraction
            from decimal import Decimal
            if k == 2:
                return f.result == f.a.value
            return bool(re.match(r"^-?[0-9]+(\.[0-9]+)?$", f.result)) and Fraction(Decimal(f.result)) == Fraction(Decimal(repr(f.a.value)))
        import z3
        from pyvc.pynum import PLAIN, DecVal
        from pyvc.stubs import sstr_to_z3
        r = sstr_to_z3(f.result)
        if r is None:
            return False
        if k == 2:
            return r == f.a.value
        t = f.a.value.term
        return And(z3.InRe(r, PLAIN), DecVal(r) == (z3.ToReal(t) if z3.is_int(t) else t))
    c.ensures("C07.formatNumber-plain-decimal-same-value", plain, props=("C07", "C09"))


_format_number_contract()

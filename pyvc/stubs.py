"""External world of the executor: assumed contracts for the standard library (A2) and the
OctoPrint/Flask framework (A3).  Every assumption used on a path is recorded in ctx.assumed."""
import re as _re
from fractions import Fraction

import z3

from . import ops
from .values import (Obj, Opt, SStr, Hole, PyList, PyDict, SymSeq, ExtClass, ExtModule, Model,
                     Unsupported, PathDead, PyExc, is_number, is_strlike, is_symstr, to_real,
                     conc_number, mkstr, as_const_bool)

EVENTS = {  # values of octoprint.events.Events used by the plugin (checked against the installed
            # octoprint at replay time; pairwise distinct is all the proofs need)
    "FILE_SELECTED": "FileSelected", "SETTINGS_UPDATED": "SettingsUpdated",
    "PRINT_STARTED": "PrintStarted", "PRINT_DONE": "PrintDone", "PRINT_FAILED": "PrintFailed",
    "PRINT_CANCELLING": "PrintCancelling", "PRINT_CANCELLED": "PrintCancelled", "ERROR": "Error",
    "PRINT_PAUSED": "PrintPaused", "PRINT_RESUMED": "PrintResumed",
}

PARAMS_PATTERN = "^[A-Za-z][0-9]+(?:\\.[0-9]+)?\\s*(.*)$"
PI = z3.Real("pi")
PI_BOUNDS = z3.And(PI > z3.Q(314159, 100000), PI < z3.Q(31416, 10000))

STR_UPPER = z3.Function("str.upper", z3.StringSort(), z3.StringSort())
GCODE_PARAMS = z3.Function("re.gcode_params", z3.StringSort(), z3.StringSort())
NUM2STR = z3.Function("str.of_number", z3.RealSort(), z3.StringSort())


class Logger(Model):
    clsname = "Logger"

    fixed = None

    def call_method(self, interp, name, args, kwargs, node):
        if name == "isEnabledFor":
            if self.fixed is not None:
                return self.fixed
            return interp.ctx.bool("log.isEnabledFor", record=False)
        if name in ("debug", "info", "warn", "warning", "error", "exception", "critical"):
            # effect dropped; '%' formatting of the message is lazy in logging and never raises here
            return None
        raise Unsupported("Logger.%s" % name, node)

    def get_attr(self, interp, name, node):
        raise Unsupported("Logger.%s" % name, node)

    def set_attr(self, interp, name, v, node):
        raise Unsupported("Logger.%s=" % name, node)


class Constants(Model):
    def __init__(self, name, table):
        self.clsname = name
        self.table = table

    def get_attr(self, interp, name, node):
        if name in self.table:
            return self.table[name]
        raise Unsupported("%s.%s" % (self.clsname, name), node)


class RegexStub(Model):
    clsname = "re.Pattern"

    def __init__(self, pattern):
        self.pattern = pattern

    def call_method(self, interp, name, args, kwargs, node):
        return interp.externals.regex_call(interp, self, name, args, kwargs, node)

    def get_attr(self, interp, name, node):
        if name == "pattern":
            return self.pattern
        raise Unsupported("regex.%s" % name, node)


class CurrentUser(Model):
    clsname = "current_user"

    def call_method(self, interp, name, args, kwargs, node):
        if name == "is_anonymous":
            g = interp.ctx.ghost
            if "anonymous" not in g:
                g["anonymous"] = interp.ctx.bool("current_user.is_anonymous")
            return g["anonymous"]
        raise Unsupported("current_user.%s" % name, node)


class Externals(object):
    def __init__(self):
        self.regex_handlers = {}
        self.trig = None

    # ---- modules -----------------------------------------------------------------
    def module(self, name):
        return ExtModule(name)

    def imported(self, modname, name):
        if modname == "collections" and name == "OrderedDict":
            return ExtClass("OrderedDict")
        if modname in ("collections.abc", "collections") and name == "Mapping":
            return ExtClass("Mapping")
        if modname == "octoprint.events" and name == "Events":
            return Constants("Events", EVENTS)
        if modname == "flask_login" and name == "current_user":
            return CurrentUser()
        if modname == "octoprint.settings" and name == "settings":
            return ExtClass("octoprint.settings.settings")
        if modname == "octoprint.filemanager.util" and name == "LineProcessorStream":
            return ExtClass("LineProcessorStream")
        if modname == "datetime":
            return ExtClass("datetime." + name)
        return ExtClass(modname + "." + name)

    def module_attr(self, interp, mod, name, node):
        if mod.name == "math" and name == "pi":
            interp.ctx.assumed.add("A2:math.pi in (3.14159, 3.1416)")
            interp.ctx.assume(PI_BOUNDS, definitional=True)
            return PI
        if mod.name == "logging":
            levels = {"DEBUG": 10, "INFO": 20, "WARNING": 30, "ERROR": 40}
            if name in levels:
                return levels[name]
        if mod.name == "octoprint" and name == "plugin":
            return ExtModule("octoprint.plugin")
        if mod.name == "octoprint.plugin":
            return ExtClass("octoprint.plugin." + name)
        raise Unsupported("%s.%s" % (mod.name, name), node)

    def module_call(self, interp, mod, name, args, kwargs, node):
        ctx = interp.ctx
        if mod.name == "math":
            return self.math_call(interp, name, args, node)
        if mod.name == "time" and name == "time":
            ctx.assumed.add("A2:time.time() returns an unconstrained real")
            return ctx.real("time.time", record=False)
        if mod.name == "uuid" and name == "uuid4":
            return _Uuid()
        if mod.name == "re" and name == "compile":
            if isinstance(args[0], str):
                return RegexStub(args[0])
            raise Unsupported("re.compile of non-constant", node)
        if mod.name == "copy" and name == "deepcopy":
            from .heap import deep_copy
            # the assumed contract of copy.deepcopy holds for classes that do not customise copying; a repository class
            # with a copy hook makes the result whatever the hook builds, which this stub does not execute
            hooks = ("__deepcopy__", "__copy__", "__reduce__", "__reduce_ex__", "__getstate__", "__setstate__", "__getnewargs__")
            for minfo in interp.program.modules.values():
                for cinfo in minfo.classes.values():
                    for hname in hooks:
                        if hname in cinfo.methods:
                            raise Unsupported("copy.deepcopy over a graph whose class %s defines %s: the assumed contract of "
                                              "deepcopy (disjoint, structurally equal) does not apply" % (cinfo.name, hname), node)
            ctx.assumed.add("A2:copy.deepcopy yields a disjoint structurally equal graph (no repository class defines a copy hook: checked on every run)")
            return deep_copy(args[0])
        if mod.name == "flask" and name == "jsonify":
            ctx.assumed.add("A3:flask.jsonify(**kw) returns its payload")
            r = PyDict(kwargs)
            r.fresh = True
            return r
        raise Unsupported("%s.%s()" % (mod.name, name), node)

    # ---- math (A2) -------------------------------------------------------------------
    def math_call(self, interp, name, args, node):
        ctx = interp.ctx
        if name == "hypot":
            a = interp.num(args[0], node)
            b = interp.num(args[1], node)
            if conc_number(a) and conc_number(b):
                s = Fraction(a) ** 2 + Fraction(b) ** 2
                r = _exact_sqrt(s)
                if r is not None:
                    return r
            ctx.assumed.add("A2:math.hypot(a,b)=h <=> h>=0 and h*h=a*a+b*b (real arithmetic)")
            h = ctx.real("hypot", record=False)
            ar, br = to_real(a), to_real(b)
            ctx.assume(z3.And(h >= 0, h * h == ar * ar + br * br), definitional=True)
            return h
        if name == "sqrt":
            v = interp.num(args[0], node)
            if conc_number(v):
                if v < 0:
                    raise PyExc("ValueError", ("math domain error",))
                r = _exact_sqrt(Fraction(v))
                if r is not None:
                    return r
            vr = to_real(v)
            fn = ctx.fn_stack[-1] if ctx.fn_stack else "?"
            ctx.oblige("%s/sqrt-domain@L%s" % (fn, getattr(node, "lineno", "?")), vr >= 0,
                       {"implicit": "ValueError(math domain error)"}, kind="implicit")
            ctx.assumed.add("A2:math.sqrt(v)=r <=> v>=0, r>=0, r*r=v (real arithmetic)")
            r = ctx.real("sqrt", record=False)
            ctx.assume(z3.And(r >= 0, r * r == vr), definitional=True)
            return r
        if name == "ceil":
            v = interp.num(args[0], node)
            if conc_number(v):
                import math
                return math.ceil(Fraction(v))
            ctx.assumed.add("A2:math.ceil(v)=n <=> n integer, n-1 < v <= n")
            n = ctx.int("ceil", record=False)
            vr = to_real(v)
            ctx.assume(z3.And(z3.ToReal(n) - 1 < vr, vr <= z3.ToReal(n)), definitional=True)
            return n
        if name in ("atan2", "cos", "sin"):
            if self.trig is None:
                raise Unsupported("math.%s (trig model not installed)" % name, node)
            return self.trig.call(interp, name, args, node)
        raise Unsupported("math.%s" % name, node)

    # ---- construction of external classes -------------------------------------------------
    def construct(self, interp, cls, args, kwargs, node):
        if cls.name in ("ValueError", "AssertionError", "AttributeError", "TypeError", "Exception",
                        "KeyError", "IndexError"):
            o = Obj(None, {"args": tuple(args)}, clsname=cls.name)
            o.fresh = True
            return o
        if cls.name == "OrderedDict":
            from .ordmap import OrdMap
            if args or kwargs:
                raise Unsupported("OrderedDict(args)", node)
            m = OrdMap.empty(interp.ctx)
            return m
        if cls.name == "decimal.Decimal":
            from .pynum import decimal_of
            return decimal_of(interp, args[0], node)
        if cls.name == "octoprint.settings.settings":
            gs = getattr(interp.ctx, "global_settings", None)
            if gs is None:
                raise Unsupported("octoprint.settings.settings() outside a contract that provides the global settings", node)
            return gs
        if cls.name == "object":
            o = Obj(None, {}, clsname="object")
            o.fresh = True
            return o
        raise Unsupported("construction of external class %s" % cls.name, node)

    def isinstance_ext(self, interp, v, cls, node):
        if cls.name == "Mapping":
            from .ordmap import ArgMap
            return isinstance(v, (PyDict, ArgMap))
        if cls.name in ("ValueError", "Exception"):
            return isinstance(v, Obj) and v.clsname == cls.name
        raise Unsupported("isinstance(.., %s)" % cls.name, node)

    def super_call(self, interp, env, name, args, kwargs, node):
        # base classes outside the repository (octoprint mixins, LineProcessorStream): no tracked effect
        cinfo = env.finfo.cls
        for c in cinfo.mro(interp.program)[1:]:
            if name in c.methods:
                return interp.invoke(c.methods[name], env.locals.get("self"), args, kwargs, node)
        interp.ctx.assumed.add("A3:%s base-class %s has no effect on tracked state" % (cinfo.name, name))
        return None

    # ---- strings -----------------------------------------------------------------------------
    def str_equals(self, interp, a, b, node):
        if isinstance(a, str) and isinstance(b, str):
            return a == b
        if isinstance(a, SStr) or isinstance(b, SStr):
            za, zb = sstr_to_z3(a), sstr_to_z3(b)
            if za is None or zb is None:
                raise Unsupported("== on formatted strings", node)
            return za == zb
        return ops.lift(a) == ops.lift(b)

    def str_truth(self, interp, v, node):
        for p in v.parts:
            if isinstance(p, str) and p:
                return True
            if isinstance(p, Hole):
                return True  # a formatted number is never empty
        z = sstr_to_z3(v)
        return z3.Length(z) > 0

    def str_len(self, interp, v, node):
        z = sstr_to_z3(v)
        if z is None:
            raise Unsupported("len of formatted string", node)
        return z3.Length(z)

    def str_method(self, interp, s, name, args, kwargs, node):
        if name == "format":
            if not isinstance(s, str):
                raise Unsupported("format on symbolic template", node)
            return format_template(s, args, kwargs, node)
        if name == "upper":
            if isinstance(s, str):
                return s.upper()
            if is_symstr(s):
                interp.ctx.assumed.add("A2:str.upper is an uninterpreted function on symbolic strings")
                return STR_UPPER(s)
            raise Unsupported("upper on rope", node)
        if name == "startswith":
            if isinstance(s, str) and isinstance(args[0], str):
                return s.startswith(args[0])
            zs = sstr_to_z3(s)
            if zs is not None and isinstance(args[0], str):
                return z3.PrefixOf(z3.StringVal(args[0]), zs)
        if name == "join":
            items = interp.as_concrete_items(args[0], node)
            parts = []
            for i, it in enumerate(items):
                if i:
                    parts.append(s)
                if isinstance(it, Opt) and it.kind == "str":
                    it = interp.none_obligation(it, node, "join of None")
                parts.append(it)
            return mkstr(parts)
        if name == "strip" and isinstance(s, str):
            return s.strip(*args)
        if name == "encode":
            return _Encoded(s)
        if name == "split":
            if isinstance(s, str):
                r = s.split(*args)
                out = PyList(r)
                out.fresh = True
                return out
            if is_symstr(s) and len(args) == 2 and args[0] is None and args[1] == 1:
                # text.split(None, 1): one or two non-empty pieces (A2; opaque functions of the text)
                interp.ctx.assumed.add("A2:str.split(None, 1) yields the first whitespace-delimited token and the rest (opaque functions)")
                first = z3.Function("split.first", z3.StringSort(), z3.StringSort())(s)
                rest = z3.Function("split.rest", z3.StringSort(), z3.StringSort())(s)
                two = interp.ctx.bool("split.has_rest", record=False)
                interp.ctx.assume(z3.Length(first) >= 1, definitional=True)
                out = PyList([first, rest] if interp.ctx.branch(two) else [first])
                out.fresh = True
                return out
        h = self.regex_handlers.get("str." + name)
        if h is not None:
            return h(interp, s, args, kwargs, node)
        raise Unsupported("str.%s on %r" % (name, s), node)

    def percent_format(self, interp, template, args, node):
        """'text %s ...' % args with the same rope as the equivalent str.format call: %s of a string is the string, of a
        number the (raw, str()) rendering of that number; %d of an integer its decimal digits; %% a percent sign.
        Other conversions (precision, %f, %r, mapping keys) are outside the subset."""
        import re as _re4
        parts = []
        pos = 0
        k = 0
        for m in _re4.finditer(r"%(.)", template):
            parts.append(template[pos:m.start()])
            conv = m.group(1)
            pos = m.end()
            if conv == "%":
                parts.append("%")
                continue
            if conv not in ("s", "d") or k >= len(args):
                raise Unsupported("%%-format conversion %r in %r" % (m.group(0), template), node)
            v = args[k]
            k += 1
            if conv == "s" and is_strlike(v):
                parts.append(v)
            elif conv == "s" and (v is None or isinstance(v, bool)):
                parts.append(str(v))
            elif isinstance(v, int) and not isinstance(v, bool):
                parts.append(str(v))
            elif conv == "s" and not isinstance(v, (Obj, PyList, PyDict, tuple)):
                parts.append(Hole(v))
            else:
                raise Unsupported("%%%s of %r" % (conv, v), node)
        if k != len(args):
            raise PyExc("TypeError", ("not all arguments converted during string formatting",))
        parts.append(template[pos:])
        return mkstr(parts)

    def slice(self, interp, base, lo, hi, node):
        if is_symstr(base):
            n = z3.Length(base)
            lo_ = 0 if lo is None else lo
            if isinstance(lo_, int) and lo_ >= 0 and hi is None:
                return z3.SubString(base, lo_, n - lo_)
            if lo is None and hi is not None:
                h = hi if ops.is_sym(hi) else z3.IntVal(hi)
                # python: s[:h] ; negative h counts from the end
                stop = z3.If(h < 0, z3.If(n + h < 0, z3.IntVal(0), n + h), z3.If(h > n, n, h))
                return z3.SubString(base, 0, stop)
        h = self.regex_handlers.get("slice")
        if h is not None:
            return h(interp, base, lo, hi, node)
        raise Unsupported("slice of %r" % (base,), node)

    def subscript(self, interp, base, idx, node):
        raise Unsupported("subscript %r[%r]" % (base, idx), node)

    def bitxor(self, interp, a, b, node):
        h = self.regex_handlers.get("bitxor")
        if h is not None:
            return h(interp, a, b, node)
        if _is_intlike(a) and _is_intlike(b):
            # `^` on ints: the uninterpreted function int.xor with two ASSUMED facts of the builtin (A2): xor with 0 is the
            # identity, and the xor of two values in 0..255 is in 0..255.  The contract of computeChecksum states the result
            # as the left fold of this same function over the bytes.
            interp.ctx.assumed.add("A2:int ^ int is the uninterpreted function int.xor with 0 ^ b = b and 0..255 closed under it")
            za, zb = _to_zint(a), _to_zint(b)
            r = INT_XOR(za, zb)
            interp.ctx.assume(z3.Implies(za == 0, r == zb), definitional=True)
            interp.ctx.assume(z3.Implies(z3.And(za >= 0, za <= 255, zb >= 0, zb <= 255), z3.And(r >= 0, r <= 255)), definitional=True)
            return r
        raise Unsupported("^ on %r, %r" % (a, b), node)

    def bytearray(self, interp, v, node):
        h = self.regex_handlers.get("bytearray")
        if h is not None:
            return h(interp, v, node)
        if isinstance(v, _Encoded):
            # bytearray(text.encode('utf-8')): a sequence of utf8.len(text) integers in 0..255, uninterpreted functions of
            # the text (A2; that they are the UTF-8 code units is not used by any clause)
            interp.ctx.assumed.add("A2:bytearray(text.encode('utf-8')) is a sequence of utf8.len(text) >= 0 integers in 0..255 (uninterpreted functions of the text)")
            zs = z3.StringVal(v.s) if isinstance(v.s, str) else sstr_to_z3(v.s)
            n = UTF8_LEN(zs)
            interp.ctx.assume(n >= 0, definitional=True)

            def at(k, zs=zs):
                e = UTF8_BYTE(zs, k if not isinstance(k, int) else z3.IntVal(k))
                interp.ctx.assume(z3.And(e >= 0, e <= 255), definitional=True)
                return e
            return SymSeq(n, at, name="utf8")
        raise Unsupported("bytearray(%r)" % (v,), node)

    def to_float(self, interp, v, node):
        h = self.regex_handlers.get("float")
        if h is not None:
            return h(interp, v, node)
        raise Unsupported("float(%r)" % (v,), node)

    def to_int(self, interp, v, node):
        if is_symstr(v):
            # int("<digits>") : the digit strings captured by \d+ (never raises for them)
            interp.ctx.assumed.add("A2:int(s) of a digit string is its decimal value (z3 str.to.int)")
            return z3.StrToInt(v)
        if ops.is_sym(v) and z3.is_real(v):
            # int() truncates toward zero
            interp.ctx.assumed.add("A2:int(v) truncates toward zero")
            return z3.If(v >= 0, z3.ToInt(v), -z3.ToInt(-v))
        h = self.regex_handlers.get("int")
        if h is not None:
            return h(interp, v, node)
        raise Unsupported("int(%r)" % (v,), node)

    def getattr_dynamic(self, interp, obj, name, rest, node):
        """getattr(obj, "<prefix>" + symbolic, default): enumerate the matching methods of the class."""
        if isinstance(obj, Obj) and obj.cls is not None:
            prefix, sym = split_prefix(name)
            if prefix is not None:
                from .values import BoundMethod
                cands = []
                for c in obj.cls.mro(interp.program):
                    for mname in c.methods:
                        if mname.startswith(prefix) and mname not in [x for x, _ in cands]:
                            cands.append((mname, c.methods[mname]))
                cands.sort()
                for mname, fi in cands:
                    suffix = mname[len(prefix):]
                    if interp.truth(interp.equals(sym, suffix, node), node):
                        return BoundMethod(obj, fi)
                # fields / other attributes cannot start with the prefix by construction of the class
                for fname in obj.fields:
                    if fname.startswith(prefix):
                        raise Unsupported("dynamic getattr may hit field %s" % fname, node)
                if rest:
                    return rest[0]
                raise PyExc("AttributeError", ())
        raise Unsupported("dynamic getattr(%r, %r)" % (obj, name), node)

    def regex_call(self, interp, rx, name, args, kwargs, node):
        if name == "sub" and rx.pattern == PARAMS_PATTERN and len(args) == 2 and args[0] == "\\1":
            interp.ctx.assumed.add("A2:GCODE_PARAMS_REGEX.sub('\\1', cmd) is the parameter text of cmd "
                                   "(uninterpreted function; the regex is checked bounded in C05)")
            src = args[1]
            if isinstance(src, str):
                import re as _re2
                return _re2.compile(rx.pattern).sub("\\1", src)
            z = sstr_to_z3(src)
            if z is None:
                raise Unsupported("regex sub on formatted string", node)
            return GCODE_PARAMS(z)
        if name in ("match", "search", "fullmatch") and not getattr(rx, "opaque_predicate", False) and args \
                and isinstance(args[0], str) and all(isinstance(a, int) for a in args[1:]):
            # concrete pattern on a concrete string: CPython's own engine decides (assumption A2 on `re`)
            import re as _re3
            interp.ctx.assumed.add("A2:re on concrete text is evaluated by CPython's engine")
            m = getattr(_re3.compile(rx.pattern), name)(*args)
            if m is None:
                return None
            return ConcreteMatch(m)
        if name == "match" and not getattr(rx, "opaque_predicate", False) and len(args) == 2 and (is_symstr(args[0]) or isinstance(args[0], str)):
            from . import rx as rxmod
            return rxmod.structural_match(interp, rx.pattern, args[0], args[1], node)
        if name in ("match", "search", "fullmatch") and getattr(rx, "opaque_predicate", False):
            # match / search / fullmatch of a configured pattern are three DIFFERENT opaque predicates of the text
            interp.ctx.assumed.add("A2:a configured parameterPattern.%s(parameters) is an opaque predicate" % name)
            sym = interp.ctx.bool("re." + name, record=True)
            interp.ctx.ghost.setdefault("rx.opaque", []).append((name, sym, args[0] if args else None))
            return sym
        h = self.regex_handlers.get((rx.pattern, name)) or self.regex_handlers.get(("*", name))
        if h is not None:
            return h(interp, rx, args, kwargs, node)
        raise Unsupported("regex %s on pattern %r" % (name, rx.pattern), node)


from .values import next_oid  # noqa: E402


class ConcreteMatch(Model):
    """A match object CPython produced for a concrete pattern and string."""
    clsname = "re.Match"

    def __init__(self, m):
        self.m = m
        self.oid = next_oid()

    def call_method(self, interp, name, args, kwargs, node):
        if name in ("group", "start", "end", "span", "groups") and all(isinstance(a, int) for a in args):
            return getattr(self.m, name)(*args)
        if name == "__bool__":
            return True
        raise Unsupported("match.%s%r" % (name, tuple(args)), node)

    def copy(self, memo=None):
        return self

    def struct_eq(self, other):
        return self is other


class _Uuid(Model):
    clsname = "uuid"

    def to_str(self, interp):
        interp.ctx.assumed.add("A2:str(uuid.uuid4()) is an unconstrained fresh string")
        return interp.ctx.string("uuid4", record=False)


UTF8_LEN = z3.Function("utf8.len", z3.StringSort(), z3.IntSort())
UTF8_BYTE = z3.Function("utf8.byte", z3.StringSort(), z3.IntSort(), z3.IntSort())
INT_XOR = z3.Function("int.xor", z3.IntSort(), z3.IntSort(), z3.IntSort())
# left fold of ^ over the first k bytes, starting from 0 (spec function of GcodeParser.computeChecksum)
UTF8_XORFOLD = z3.RecFunction("utf8.xorfold", z3.StringSort(), z3.IntSort(), z3.IntSort())
_xs, _xk = z3.String("xs!"), z3.Int("xk!")
z3.RecAddDefinition(UTF8_XORFOLD, [_xs, _xk], z3.If(_xk <= 0, z3.IntVal(0), INT_XOR(UTF8_XORFOLD(_xs, _xk - 1), UTF8_BYTE(_xs, _xk - 1))))


def _is_intlike(v):
    if isinstance(v, bool):
        return False
    if isinstance(v, int):
        return True
    return z3.is_expr(v) and z3.is_int(v)


def _to_zint(v):
    return z3.IntVal(v) if isinstance(v, int) else v


class _Encoded(Model):
    clsname = "bytes"

    def __init__(self, s):
        self.s = s


def split_prefix(name):
    if isinstance(name, SStr) and len(name.parts) == 2 and isinstance(name.parts[0], str):
        return name.parts[0], name.parts[1]
    return None, None


def _exact_sqrt(fr):
    import math
    if fr < 0:
        return None
    n, d = fr.numerator, fr.denominator
    rn, rd = math.isqrt(n), math.isqrt(d)
    if rn * rn == n and rd * rd == d:
        return Fraction(rn, rd)
    return None


_FMT_RE = _re.compile(r"\{(\w*)\}")


def format_template(template, args, kwargs, node=None):
    parts = []
    pos = 0
    auto = 0
    for m in _FMT_RE.finditer(template):
        parts.append(template[pos:m.start()])
        key = m.group(1)
        if key == "":
            v = args[auto]
            auto += 1
        elif key.isdigit():
            v = args[int(key)]
        else:
            if key not in kwargs:
                raise PyExc("KeyError", (key,))
            v = kwargs[key]
        if is_strlike(v):
            parts.append(v)
        elif v is None or isinstance(v, bool):
            parts.append(str(v))
        elif isinstance(v, int):
            parts.append(str(v))
        else:
            parts.append(Hole(v))
        pos = m.end()
    rest = template[pos:]
    if "{" in rest or "}" in rest or "{" in "".join(p for p in parts if isinstance(p, str)):
        raise Unsupported("format template %r" % template, node)
    parts.append(rest)
    return mkstr(parts)


def sstr_to_z3(v):
    """String value -> z3 String term (None when it contains formatted numbers)."""
    if isinstance(v, str):
        return z3.StringVal(v)
    if is_symstr(v):
        return v
    if isinstance(v, SStr):
        zs = []
        for p in v.parts:
            if isinstance(p, str):
                zs.append(z3.StringVal(p))
            elif is_symstr(p):
                zs.append(p)
            elif isinstance(p, Hole):
                hv = p.value
                if ops.is_sym(hv) and z3.is_string(hv):
                    zs.append(hv)
                elif is_number(hv):
                    zs.append(NUM2STR(to_real(hv)))
                else:
                    return None
            else:
                return None
        return z3.Concat(*zs) if len(zs) > 1 else zs[0]
    return None

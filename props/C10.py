from props.common import *
import ast
ID = "C10"
LEVEL = "proof"
TAGS = ("C10",)
CONTRACT_MODULES = ALL_CONTRACTS
FUNCTIONS = [S + "resetState", P + "on_event", S + "enterExcludedRegion", S + "_processPendingCommands", P + "initialize"]
ASSUMPTIONS = ["A1", "A3", "A4", "INDUCTION"]
PER_PRINT = ("position", "feedRate", "feedRateUnitMultiplier", "_exclusionEnabled", "excluding", "excludeStartTime",
             "numExcludedCommands", "numCommands", "lastRetraction", "lastPosition", "pendingCommands")
CONFIG = ("_logger", "g90InfluencesExtruder", "enteringExcludedRegionGcode", "exitingExcludedRegionGcode", "extendedExcludeGcodes",
          "atCommandActions", "gcodeParser", "excludedRegions")
OTHER_CLASSES = {"GcodeHandlers": ("state", "_logger", "gcodeParser"),
                 "StreamProcessorComm": ("bufferedCommands",)}


def attribute_inventory(edits):
    """C10.inventory: every instance attribute assigned anywhere in ExcludeRegionState is either configuration / the
    region list, or one of the per-print fields that resetState resets (proved equal to a fresh state by the clause
    C10.per-print-state-equals-fresh); GcodeHandlers holds no print state of its own.  A new attribute that is not
    reset fails here."""
    from pyvc.source import Program
    prog = Program(edits=edits) if edits else Program()
    recs = []

    def assigned(cinfo):
        out = set()
        for n in ast.walk(cinfo.node):
            if isinstance(n, ast.Attribute) and isinstance(n.ctx, ast.Store) and isinstance(n.value, ast.Name) and n.value.id == "self":
                out.add(n.attr)
        return out
    st = assigned(prog.find_class("ExcludeRegionState"))
    extra = sorted(st - set(PER_PRINT) - set(CONFIG))
    recs.append({"name": "ExcludeRegionState/C10.inventory", "kind": "lemma", "status": "discharged" if not extra else "refuted",
                 "backend": "ast", "secs": 0.0, "props": ["C10"], "model": {"unreset_attributes": extra} if extra else None})
    reset = prog.find_class("ExcludeRegionState").methods["resetState"]
    written = set(n.attr for n in ast.walk(reset.node) if isinstance(n, ast.Attribute) and isinstance(n.ctx, ast.Store))
    missing = sorted(set(PER_PRINT) - written)
    recs.append({"name": "ExcludeRegionState.resetState/C10.inventory-reset-writes-every-per-print-field", "kind": "lemma",
                 "status": "discharged" if not missing else "refuted", "backend": "ast", "secs": 0.0, "props": ["C10"],
                 "model": {"not_written": missing} if missing else None})
    for cname, allowed in OTHER_CLASSES.items():
        got = sorted(assigned(prog.find_class(cname)) - set(allowed))
        recs.append({"name": "%s/C10.inventory" % cname, "kind": "lemma", "status": "discharged" if not got else "refuted",
                     "backend": "ast", "secs": 0.0, "props": ["C10"], "model": {"extra_attributes": got} if got else None})
    return recs


LEMMAS = [attribute_inventory]
EXTRA_ASSUMPTIONS = ["footprint: every function reachable from the hooks is verified (C01-C09, C14, C15, C20) from a pre-state made of exactly the "
                     "ExcludeRegionState fields, the plugin's flags and the arguments; the handlers' and the state's GcodeParser objects "
                     "are given an OPAQUE prior state (any read before parse() would make those checks undecided); so behaviour after a "
                     "reset is a function of per-print fields (reset), configuration, regions and the program only",
                     "Events.SETTINGS_UPDATED / settings plumbing is unverified surroundings"]
EXPLANATION = ("(a) resetState(False) from an ARBITRARY pre-state (all shapes of lastRetraction/lastPosition/scripts) leaves every per-print "
               "field structurally equal to that of a freshly constructed ExcludeRegionState -- both computed by the executor from the "
               "real constructor -- and keeps configuration and regions; on_event(PRINT_STARTED) performs it and sets the job flag "
               "(lifecycle clause). (b) inventory: an AST scan shows that every attribute assigned anywhere in ExcludeRegionState is "
               "configuration, the region list or a per-print field written by resetState, and that GcodeHandlers/StreamProcessorComm "
               "hold no other state; (c) the lists handed out by enterExcludedRegion and _processPendingCommands, which their callers "
               "extend, are never the configured script objects themselves (aliasing clauses), so no history can grow the settings; "
               "together with the footprint argument (assumptions) the output after a reset is a function of regions, settings and "
               "program.")
BREAKERS = [
    {"module": "ExcludeRegionState", "old": "        self.lastRetraction = None\n        self.lastPosition = None\n        self.pendingCommands = OrderedDict()",
     "new": "        self.lastPosition = None\n        self.pendingCommands = OrderedDict()", "desc": "owed retraction survives a reset",
     "functions": [S + "resetState"], "lemmas": True},
    {"module": "ExcludeRegionState", "old": "        self.lastPosition = Position(self.position)\n        self._logger.info(\"START excluding: cmd=%s\", cmd)",
     "new": "        self.lastPosition = Position(self.position)\n        self.lastEnterCommand = cmd\n        self._logger.info(\"START excluding: cmd=%s\", cmd)",
     "desc": "new per-print attribute that resetState does not reset", "functions": [], "lemmas": True},
    {"module": "__init__", "old": "            self._logger.info(\"Printing started\")\n            self.state.resetState()\n", "new": "            self._logger.info(\"Printing started\")\n",
     "desc": "print start does not reset the state", "functions": [P + "on_event"]},
    {"module": "ExcludeRegionState", "old": "        self._exclusionEnabled = True\n        self.excluding = False", "new": "        self.excluding = False",
     "desc": "a disabled exclusion survives a reset", "functions": [S + "resetState"], "lemmas": True},
]

"""Contract of GcodeParser.parse itself (C18 b): losslessness and progress, for an arbitrary prior parser state, an
arbitrary source text and offset -- over the structural contract of the line pattern (pyvc.rx.structural_match)."""
from pyvc.contracts import contract, REGISTRY
from pyvc import ops
from pyvc.ops import And, Or, Not, Implies, eq, is_none, val

GP = "GcodeParser.GcodeParser."


def mk_full_parser(b):
    """A GcodeParser in an ARBITRARY prior state (it is re-used for every line)."""
    return b.new("GcodeParser", source=b.string("prev.source"), offset=b.int("prev.offset"), length=b.int("prev.length"),
                 _lineNumber=b.optint("prev.lineNumber"), _type=b.optstr("prev.type"), _code=b.optint("prev.code"),
                 _gcode=b.optstr("prev.gcode"), _subCode=b.optint("prev.subCode"), _parameters=b.optstr("prev.parameters"),
                 _parameterDict=None, _checksum=b.optint("prev.checksum"), leadingWhitespace=b.string("prev.lead"),
                 text=b.string("prev.text"), _rawChecksum=b.optstr("prev.rawChecksum"), trailingWhitespace=b.string("prev.trail"),
                 comment=b.optstr("prev.comment"), eol=b.string("prev.eol"), _commandString=b.optstr("prev.commandString"))


def _same(a, b):
    """a <=> b for python booleans / z3 Booleans."""
    if ops.is_sym(a) or ops.is_sym(b):
        return And(Implies(a, b), Implies(b, a))
    return bool(a) == bool(b)


def _parse_contract():
    c = REGISTRY.get(GP + "parse")

    def pre(b):
        p = mk_full_parser(b)
        k = b.choose(2, "source given?")
        if k == 0:
            src = b.string("source")
            off = [None, b.int("offset")][b.choose(2, "offset given?")]
        else:
            src, off = None, None      # continue with the next line of the current source
        return {"self": p, "args": {"source": src, "offset": off}}
    c.pre(pre)

    def start_of(f):
        o = f.old.self
        if f.a.source is not None:
            return (f.a.source, 0 if f.a.offset is None else f.a.offset)
        return (o.source, o.offset + o.length)
    c.requires("offset-within-source", lambda f: in_range(f))

    def lossless(f):
        """fullText is exactly the slice of the source that this parse consumed."""
        if getattr(f, "native", False):
            src, off = start_of(f)
            return f.self.offset == off and f.self.length >= 0 and f.self.fullText == src[off:off + f.self.length]
        import z3
        from pyvc.stubs import sstr_to_z3
        src, off = start_of(f)
        ft = f.interp.get_attr(f.self, "fullText", None)
        zft = sstr_to_z3(ft)
        zsrc = sstr_to_z3(src)
        offz = z3.IntVal(off) if isinstance(off, int) else off
        return And(eq(f.self.offset, offz), f.self.length >= 0, offz + f.self.length <= z3.Length(zsrc),
                   zft == z3.SubString(zsrc, offz, f.self.length))
    def reassembled(f):
        """Lemma: the pieces kept by parse() re-assemble to exactly the text the pattern matched (the derivation's own
        concatenation), and offset/length describe that match."""
        if getattr(f, "native", False):
            return lossless(f)
        import z3
        from pyvc.stubs import sstr_to_z3
        ms = f.g.get("rx.matches") or []
        if len(ms) != 1:
            return False
        m = ms[0]
        ft = f.interp.get_attr(f.self, "fullText", None)
        return And(sstr_to_z3(ft) == m["whole"], eq(f.self.offset, m["pos"]), eq(f.self.length, m["n"]))
    c.ensures("C18.lemma-pieces-reassemble-the-match", reassembled, props=("C18",), lemma=True)
    c.ensures("C18.fullText-is-the-consumed-slice", lossless, props=("C18",))

    def progress(f):
        if getattr(f, "native", False):
            src, off = start_of(f)
            return off >= len(src) or f.self.length >= 1
        import z3
        from pyvc.stubs import sstr_to_z3
        src, off = start_of(f)
        offz = z3.IntVal(off) if isinstance(off, int) else off
        return Implies(offz < z3.Length(sstr_to_z3(src)), f.self.length >= 1)
    c.ensures("C18.progress", progress, props=("C18",))

    def this_line_only(f):
        """The parser object is re-used for every line: after parse() every field describes THIS line -- present exactly
        when the corresponding group of the match is (line number, code type, code, sub-code, parameters, checksum, raw
        checksum, comment), whatever the previous line left behind; the caches are cleared."""
        p = f.self
        if getattr(f, "native", False):
            src, off = start_of(f)
            fresh = type(p)()
            fresh.parse(src, off)
            names = ("_lineNumber", "_type", "_code", "_gcode", "_subCode", "_parameters", "_checksum", "_rawChecksum", "comment",
                     "leadingWhitespace", "text", "trailingWhitespace", "eol", "_parameterDict", "_commandString")
            return all(getattr(p, n) == getattr(fresh, n) for n in names)
        import z3
        ms = f.g.get("rx.matches") or []
        if len(ms) != 1:
            return False
        groups = ms[0]["groups"]

        def absent(i):
            present, _ = groups[i]
            return z3.Not(present)

        def none(v):
            if v is None:
                return True
            if hasattr(v, "isnone"):
                return v.isnone
            return False
        typed_absent = z3.And(absent(4), absent(7))
        return And(_same(none(p._lineNumber), absent(3)), _same(none(p._type), typed_absent), _same(none(p._code), typed_absent),
                   _same(none(p._gcode), typed_absent), _same(none(p._subCode), Or(typed_absent, absent(6))),
                   _same(none(p._parameters), absent(9)), _same(none(p._checksum), absent(10)),
                   _same(none(p._rawChecksum), absent(10)), _same(none(p.comment), absent(12)),
                   p._parameterDict is None, p._commandString is None)
    c.ensures("C18.fields-describe-this-line-only", this_line_only, props=("C18", "C19", "C20"))
    c.ensures("returns-self", lambda f: f.result is f.self, props=("C18",))
    c.split(5)


def in_range(f):
    if getattr(f, "native", False):
        o = f.self
        if f.a.source is not None:
            off = 0 if f.a.offset is None else f.a.offset
            return 0 <= off <= len(f.a.source)
        return o.offset >= 0 and o.length >= 0 and o.offset + o.length <= len(o.source)
    import z3
    from pyvc.stubs import sstr_to_z3
    o = f.self
    if f.a.source is not None:
        off = 0 if f.a.offset is None else f.a.offset
        return And(off >= 0, off <= z3.Length(sstr_to_z3(f.a.source))) if not isinstance(off, int) else True
    return And(o.offset >= 0, o.length >= 0, o.offset + o.length <= z3.Length(sstr_to_z3(o.source)))


_parse_contract()


# ------------------------------------------------------------------------------------------ buildCommand (C06 / C07)
def _build_command_contract():
    """buildCommand(gcode, **args) -- the command rendered for a merged (deferred) argument map.  Callers see it as an
    opaque rendering `gcode.render(gcode, args)` (contracts/deferred.py); here the real function is executed (real
    __init__, gcode setter, parameterDict setter, stringify) for argument maps of 0..3 entries with SYMBOLIC values
    (None or any number) and the result is read back with the independent RS274 reader: the code, then exactly the
    given letters in order, each carrying exactly its value (or none for None), every number rendered by formatNumber.
    Bounded in the number of parameters only."""
    c = REGISTRY.get(GP + "buildCommand")
    LETTERS = ("P", "T", "S")
    CODES = ("M204", "G4", "M73", "G38.2")

    def pre(b):
        p = mk_full_parser(b)
        code = CODES[b.choose(len(CODES), "code")]
        n = b.choose(4, "number of arguments")
        kw = {}
        for i in range(n):
            kw[LETTERS[i]] = b.optreal("arg." + LETTERS[i])
        return {"self": p, "args": {"gcode": code, "kwargs": b.dict(kw)}}
    c.pre(pre)
    c.inline_callees = {GP + "stringify", GP + "parse", GP + "parameterItems"}

    def reads_back(f):
        from spec import rs274
        from spec import refprinter as RP
        from fractions import Fraction
        kw = f.old.a.kwargs
        kw = kw.d if hasattr(kw, "d") else kw
        want_code = f.a.gcode
        if getattr(f, "native", False):
            ws = rs274.words(f.result)
            if not ws or ws[0][0] != want_code[0] or ws[0][1] != Fraction(want_code[1:]):
                return False
            params = ws[1:]
            exp = [(k, None if v is None else Fraction(repr(float(v)))) for k, v in kw.items()]
            got = [(l, None if v is None else Fraction(v)) for (l, v) in params]
            return got == exp and "e" not in f.result.lower()
        parts = RP.item_parts(f.result)
        if parts is None:
            return False
        ws = rs274.rope_words(parts)
        if not ws or ws[0][0] != want_code[0] or ws[0][1] != Fraction(want_code[1:]):
            return False
        params = ws[1:]
        if [l for (l, _) in params] != list(kw.keys()):
            return False
        conds = []
        holes = [p_ for p_ in parts if hasattr(p_, "value")]
        for (l, v), (k, want) in zip(params, kw.items()):
            present = Not(want.isnone) if hasattr(want, "isnone") else (want is not None)
            if v is None:
                conds.append(Not(present))
            else:
                conds.append(And(present, eq(v, val(want))))
        return And(all(getattr(h, "plain", False) for h in holes), *conds)
    c.ensures("C06.merged-command-reads-back-as-its-arguments", reads_back, props=("C06", "C07"))


_build_command_contract()


# ---------------------------------------------------------------------------------------------- checksum (C18 d)
def _xorfold_native(text):
    r = 0
    for byte in bytearray(text.encode("utf-8")):
        r ^= byte
    return r


def _checksum_contract():
    """GcodeParser.computeChecksum(value) is the left fold of ^ over the UTF-8 bytes of the text, starting from 0, and
    lies in 0..255 -- for texts of ANY length (loop invariant over the symbolic byte sequence).  The bytes and ^ are the
    assumed builtin contracts listed in the evidence (uninterpreted byte sequence in 0..255; xor with identity 0 and
    closed on 0..255)."""
    from pyvc.contracts import Contract
    c = REGISTRY.contracts.setdefault(GP + "computeChecksum", Contract(GP + "computeChecksum"))
    c.pre(lambda b: {"self": None, "args": {"value": b.string("value")}})
    c.modifies()

    def fold_to(text, k=None):
        import z3
        from pyvc.stubs import sstr_to_z3, UTF8_XORFOLD, UTF8_LEN
        zs = z3.StringVal(text) if isinstance(text, str) else sstr_to_z3(text)
        return UTF8_XORFOLD(zs, UTF8_LEN(zs) if k is None else k)

    c.loop(0, invariant=lambda L, k: And(eq(L.checksum, fold_to(L.value, k)), L.checksum >= 0, L.checksum <= 255),
           havoc={"checksum": "int"}, scratch=["byte"])

    def spec(f):
        if getattr(f, "native", False):
            return isinstance(f.result, int) and f.result == _xorfold_native(f.a.value) and 0 <= f.result <= 255
        return And(eq(f.result, fold_to(f.a.value)), f.result >= 0, f.result <= 255)
    c.ensures("C18.checksum-is-the-xor-fold-of-the-bytes", spec, props=("C18",))
    c.result("int")
    c.use_modular()


_checksum_contract()


def _validate_contract():
    """GcodeParser.validate(): raises ValueError exactly when only one of line number / checksum is present, or when
    the checksum differs from computeChecksum(leadingWhitespace + text); otherwise returns None; changes nothing."""
    from pyvc.contracts import Contract
    c = REGISTRY.contracts.setdefault(GP + "validate", Contract(GP + "validate"))
    c.pre(lambda b: {"self": mk_full_parser(b), "args": {}})
    c.modifies()

    def must_raise(f):
        p = f.self
        if getattr(f, "native", False):
            has_c, has_n = p._checksum is not None, p._lineNumber is not None
            return (has_c != has_n) or (has_c and p._checksum != _xorfold_native(p.leadingWhitespace + p.text))
        import z3
        from pyvc.stubs import sstr_to_z3, UTF8_XORFOLD, UTF8_LEN
        has_c, has_n = Not(is_none(p._checksum)), Not(is_none(p._lineNumber))
        zs = z3.Concat(sstr_to_z3(p.leadingWhitespace), sstr_to_z3(p.text))
        want = UTF8_XORFOLD(zs, UTF8_LEN(zs))
        return Or(And(has_c, Not(has_n)), And(has_n, Not(has_c)), And(has_c, Not(eq(val(p._checksum), want))))
    c.raises("ValueError", when=must_raise)
    c.ensures("C18.validate-returns-none", lambda f: f.result is None, props=("C18",))


_validate_contract()


# ---------------------------------------------------------------------------------------------- cache coherence (C18 c)
def _opt_same(a, b, same):
    return Or(And(is_none(a), is_none(b)), And(Not(is_none(a)), Not(is_none(b)), same(val(a), val(b))))


def _cache_contracts():
    """The two writers of parsed fields outside parse(): after them no cached rendering survives.
    _updateParameters(value): the parameter text is the value, the cached dictionary and the cached command string are
    dropped, nothing else is written.  lineNumber setter: the line number is None / int(value); when it changed, the cached
    command string is dropped; nothing else is written."""
    from pyvc.contracts import Contract
    c = REGISTRY.contracts.setdefault(GP + "_updateParameters", Contract(GP + "_updateParameters"))

    def pre(b):
        p = mk_full_parser(b)
        if not getattr(b, "native", False):
            p.fields["_parameterDict"] = b.opaque("cached parameter dictionary") if b.choose(2, "dictionary cached?") else None
        return {"self": p, "args": {"value": b.optstr("value")}}
    c.pre(pre)
    c.modifies("self._parameters", "self._parameterDict", "self._commandString")

    def post(f):
        p = f.self
        if getattr(f, "native", False):
            return p._parameters == f.a.value and p._parameterDict is None and p._commandString is None
        return And(_opt_same(p._parameters, f.a.value, ops.str_eq), p._parameterDict is None,
                   p._commandString is None or is_none(p._commandString))
    c.ensures("C18.parameter-caches-dropped", post, props=("C18", "C19", "C06", "C07"))

    c2 = REGISTRY.contracts.setdefault(GP + "lineNumber.setter", Contract(GP + "lineNumber.setter"))
    c2.pre(lambda b: {"self": mk_full_parser(b), "args": {"value": b.optint("value")}})
    c2.modifies("self._lineNumber", "self._commandString")

    def post2(f):
        p, o, v = f.self, f.old.self, f.a.value
        if getattr(f, "native", False):
            return p._lineNumber == v and (o._lineNumber == v or p._commandString is None)
        dropped = (p._commandString is None) or is_none(p._commandString)
        return And(_opt_same(p._lineNumber, v, eq), Or(_opt_same(o._lineNumber, v, eq), dropped))
    c2.ensures("C18.line-number-stored-and-cache-dropped-on-change", post2, props=("C18",))


_cache_contracts()

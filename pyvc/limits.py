"""Solver budgets in CPU time, not wall-clock time.

z3's own `timeout` is wall-clock: on a busy machine (16 worker processes, or several checks at once) a query that is
decided in 0.3 s on an idle machine runs out of a 0.4 s budget, and verdicts flip with the load.  Here every z3 check
runs under a watchdog thread that interrupts the solver once the PROCESS has consumed the given CPU budget (each worker
process runs one solver at a time; the watchdog sleeps), and z3's wall-clock timeout is only a generous backstop.  The
same query therefore gets the same amount of work whatever else the machine is doing."""
import threading
import time

import z3

WALL_FACTOR = 25          # wall-clock backstop = budget * WALL_FACTOR (a machine 25x oversubscribed is not supported)


class _Watchdog(object):
    def __init__(self):
        self.lock = threading.Lock()
        self.gen = 0
        self.active = None          # (gen, z3 context, cpu start, budget in seconds)
        self.thread = None
        self.pid = None
        self.fired = False

    def _run(self):
        while True:
            time.sleep(0.01)
            with self.lock:
                cur = self.active
                if cur is None:
                    continue
                gen, zctx, start, budget = cur
                if time.process_time() - start > budget and gen == self.gen:
                    try:
                        zctx.interrupt()
                    except Exception:
                        pass
                    self.fired = True
                    self.active = None

    def ensure(self):
        import os
        if self.thread is None or self.pid != os.getpid() or not self.thread.is_alive():
            self.pid = os.getpid()
            self.lock = threading.Lock()
            self.active = None
            self.thread = threading.Thread(target=self._run, name="z3-cpu-watchdog", daemon=True)
            self.thread.start()

    def arm(self, zctx, budget_s):
        self.ensure()
        with self.lock:
            self.gen += 1
            self.fired = False
            self.active = (self.gen, zctx, time.process_time(), budget_s)

    def disarm(self):
        """Returns True if the watchdog interrupted the context during this arm period."""
        with self.lock:
            self.gen += 1
            self.active = None
            return self.fired


_WD = _Watchdog()


def check(solver, budget_ms, *assumptions):
    """solver.check() under a CPU budget of budget_ms milliseconds."""
    budget_s = budget_ms / 1000.0
    solver.set("timeout", int(budget_ms * WALL_FACTOR))
    for attempt in (0, 1):
        c0 = time.process_time()
        _WD.arm(solver.ctx, budget_s)
        try:
            r = solver.check(*assumptions)
        finally:
            if _WD.disarm():
                # z3's interrupt is sticky when it lands after the check has returned (the check finished by itself
                # right at the budget): the next non-check API call (push, add ...) would fail with 'canceled'.  The
                # start of any check clears it.
                try:
                    z3.Solver(ctx=solver.ctx).check()
                except z3.Z3Exception:
                    pass
        if r != z3.unknown:
            return r
        used = time.process_time() - c0
        if used >= budget_s * 0.5:
            return r
        # `unknown` long before the budget: either z3 gave up by itself (return it), or a late interrupt of the
        # previous query hit this one (retry once)
        try:
            reason = solver.reason_unknown()
        except Exception:
            reason = ""
        if "cancel" not in reason and "interrupt" not in reason:
            return r
    return r
